import Model.Retrieve
import Proofs.RetrieveAdmit
import Proofs.RetrieveEnd

/-! # C03 — only material signed by the genesis proposer's key is ever accepted

Admission of DA blobs (`Retrieve.classify` = `handlePotentialHeader` / `handlePotentialData` with
`isUsingExpectedSingleSequencer`, `SignedHeader.ValidateBasic`, `isValidSignedData`) and of P2P headers
(`Retrieve.p2pAdmit` = the test `HeaderStoreRetrieveLoop` applies), on BYTES decoded with the wire model.  These
are the definitions the driver executes and the differential check compares with the real handlers.

Since /repo e753a34 both validation functions require `Signer.Address == KeyAddress(Signer.PubKey)`; with
"header names the genesis proposer's address = the signer's address" this binds the carried key to genesis.
The address derivation is **part of the model**: `keyAddrOf` computes SHA-256 of the raw key that
`ed25519Raw` extracts from the carried libp2p key envelope (wire model; the libp2p parsing rules — last
occurrence wins, enum truncated to 32 bits, 32 data bytes — were confirmed against the real library and are
exercised by the differential stream); only for the other key types libp2p accepts (RSA, secp256k1, ECDSA,
whose `Raw()` re-encodes the key) the address is a per-blob oracle answer (`Oracle.keyAddr`, the real
`types.KeyAddress`, computed by the harness).

What remains hypothesis, and how it is expressed:
* **The oracle is quantified independently of the item.**  `SignedByProposer o R sh` says `o.hdrSigOk = true` for an
  `o` that Lean does not relate to `sh`: that this boolean is the result of verifying `sh`'s signature over `sh`'s
  payload under the key `sh` carries is established by `Oracles()` of the harness (repository decoder + real
  `PubKey.Verify` over the default payload), i.e. it is part of the trusted base.  The section "which verification
  returned `true`" states that computation in Lean (`Crypto.oracleFor`) and proves the conclusions with the
  verification named (`accepted_header_verified`, `C03_header_full_verified`).
* **Signature unforgeability (ed25519)** is not used in any proof.  The conclusions say "the item carries the
  proposer's key `R` and the REAL verification of its signature under the carried key succeeded"
  (`o.hdrSigOk` / `o.dataSigOk` = the oracle, i.e. `PubKey.Verify` run by the harness).  That only the holder of
  the private key can make that verification succeed is the cryptographic assumption outside the model.
* **No address collision (SHA-256)**: `AddrNoCollision R` — no other 32-byte raw key has the address of `R` —
  and, for carried keys of another type, `OtherKeyTypeNoCollision o R pk` — the real address of such a key is
  not the proposer's.  Both are explicit hypotheses of the `C03_*_full` theorems; the hypothesis-free forms
  (`*_by_proposer_or_collision`) conclude "signed by the proposer, or here is a collision". -/
namespace Spec.C03
open Wire Chain Retrieve

/-! ## what admission guarantees, spelled out (the former `_partial` theorems, now with the binding) -/

theorem classifyData_not_header (o : Oracle) (proposer bs : Bytes) (sh : SignedHeader) :
    classifyData o proposer bs ≠ .hdrAccepted sh := classifyData_not_hdrAccepted o proposer bs sh

/-- an accepted DA header names the genesis proposer's address, its signer claims that address, carries a key
**whose address it is**, and the signature verifies under that key -/
theorem admit_selfconsistent_partial (o : Oracle) (proposer bs : Bytes) (sh : SignedHeader)
    (h : classify o proposer bs = .hdrAccepted sh) :
    sh.header.proposerAddress = proposer ∧ sh.header.proposerAddress = sh.signer.address ∧
    sh.signer.pubKey ≠ [] ∧ o.hdrSigOk = true := by
  obtain ⟨_, hvb, hp⟩ := (classify_hdrAccepted_iff o proposer bs sh).1 h
  obtain ⟨_, _, h3, h4, _, h6⟩ := (validateBasicWire_iff o sh).1 hvb
  exact ⟨hp, h3, h4, h6⟩

/-- **the binding the repair established**: the address an accepted header's signer claims is the address of the
key it carries, hence the proposer's address is the address of the carried key -/
theorem accepted_header_key_bound (o : Oracle) (proposer bs : Bytes) (sh : SignedHeader)
    (h : classify o proposer bs = .hdrAccepted sh) :
    sh.signer.address = keyAddrOf o sh.signer.pubKey ∧ keyAddrOf o sh.signer.pubKey = proposer := by
  obtain ⟨_, hvb, hp⟩ := (classify_hdrAccepted_iff o proposer bs sh).1 h
  obtain ⟨_, _, h3, _, h5, _⟩ := (validateBasicWire_iff o sh).1 hvb
  exact ⟨h5, by rw [← h5, ← h3, hp]⟩

theorem admit_data_selfconsistent_partial (o : Oracle) (proposer bs : Bytes) (sd : SignedData)
    (h : classifyData o proposer bs = .dataAccepted sd) :
    sd.signer.address = proposer ∧ sd.signer.pubKey ≠ [] ∧ o.dataSigOk = true ∧ sd.data.txs ≠ [] := by
  obtain ⟨_, ht, _, hv⟩ := (classifyData_accepted_iff o proposer bs sd).1 h
  obtain ⟨h1, h2, _, h4⟩ := (validSignedData_iff o proposer sd).1 hv
  exact ⟨h1, h2, h4, ht⟩

/-- signed data reaching sync through the full DA classification went through the data test -/
theorem admit_data_via_classify (o : Oracle) (proposer bs : Bytes) (sd : SignedData)
    (h : classify o proposer bs = .dataAccepted sd) : classifyData o proposer bs = .dataAccepted sd :=
  ((classify_dataAccepted_iff o proposer bs sd).1 h).2.2.2

theorem accepted_data_key_bound (o : Oracle) (proposer bs : Bytes) (sd : SignedData)
    (h : classify o proposer bs = .dataAccepted sd) :
    sd.signer.address = keyAddrOf o sd.signer.pubKey ∧ keyAddrOf o sd.signer.pubKey = proposer := by
  obtain ⟨_, _, _, hv⟩ := (classifyData_accepted_iff o proposer bs sd).1 (admit_data_via_classify o proposer bs sd h)
  obtain ⟨h1, _, h3, _⟩ := (validSignedData_iff o proposer sd).1 hv
  exact ⟨h3, by rw [← h3, h1]⟩

theorem admit_p2p_selfconsistent_partial (o : Oracle) (proposer : Bytes) (sh : SignedHeader)
    (h : p2pAdmit o proposer sh = true) :
    sh.header.proposerAddress = proposer ∧ sh.header.proposerAddress = sh.signer.address ∧
    sh.signature ≠ [] ∧ sh.signer.pubKey ≠ [] ∧ o.hdrSigOk = true := by
  simp only [p2pAdmit, Bool.and_eq_true, decide_eq_true_eq] at h
  obtain ⟨_, h2, h3, h4, _, h6⟩ := (validateBasicWire_iff o sh).1 h.2
  exact ⟨h.1, h3, h2, h4, h6⟩

theorem admitted_p2p_key_bound (o : Oracle) (proposer : Bytes) (sh : SignedHeader)
    (h : p2pAdmit o proposer sh = true) :
    sh.signer.address = keyAddrOf o sh.signer.pubKey ∧ keyAddrOf o sh.signer.pubKey = proposer := by
  simp only [p2pAdmit, Bool.and_eq_true, decide_eq_true_eq] at h
  obtain ⟨_, _, h3, _, h5, _⟩ := (validateBasicWire_iff o sh).1 h.2
  exact ⟨h5, by rw [← h5, ← h3, h.1]⟩

/-! ## the full statements, in the property's vocabulary -/

/-- `types.KeyAddress` of an Ed25519 key with raw bytes `R`: what genesis names as the proposer's address -/
def keyAddress (R : Bytes) : Bytes := sha256 R

/-- "signed with the private key of the proposer named in genesis": the key the item carries IS the proposer's
Ed25519 key `R` (as libp2p parses the carried bytes) and the real verification of the signature under the
carried key succeeded -/
def SignedByProposer (o : Oracle) (R : Bytes) (sh : SignedHeader) : Prop :=
  ed25519Raw sh.signer.pubKey = some R ∧ o.hdrSigOk = true

def DataSignedByProposer (o : Oracle) (R : Bytes) (sd : SignedData) : Prop :=
  ed25519Raw sd.signer.pubKey = some R ∧ o.dataSigOk = true

/-- the carried key `pk` is a DIFFERENT key with the proposer's address: another Ed25519 key whose SHA-256 equals
that of `R`, or a key of another type whose real `KeyAddress` (oracle) is `sha256 R` (raw encodings of the other
key types are never 32 bytes, so that is a collision too) -/
def AddrCollision (o : Oracle) (R pk : Bytes) : Prop :=
  (∃ R', ed25519Raw pk = some R' ∧ R'.length = 32 ∧ R' ≠ R ∧ sha256 R' = sha256 R) ∨
  (ed25519Raw pk = none ∧ o.keyAddr = sha256 R)

/-- no other 32-byte raw key has the address of `R` (second-preimage resistance of SHA-256 at `R`) -/
def AddrNoCollision (R : Bytes) : Prop := ∀ R' : Bytes, R'.length = 32 → sha256 R' = sha256 R → R' = R

/-- a carried key of another type (RSA, secp256k1, ECDSA) does not have the proposer's address -/
def OtherKeyTypeNoCollision (o : Oracle) (R pk : Bytes) : Prop := ed25519Raw pk = none → o.keyAddr ≠ sha256 R

theorem no_collision_of_hyps {o : Oracle} {R pk : Bytes} (h1 : AddrNoCollision R)
    (h2 : OtherKeyTypeNoCollision o R pk) : ¬ AddrCollision o R pk := by
  rintro (⟨R', _, hl, hne, he⟩ | ⟨hn, he⟩)
  · exact hne (h1 R' hl he)
  · exact h2 hn he

/-- core step: a key whose (modelled) address is the proposer's is the proposer's key, or a collision -/
theorem key_with_proposer_address (o : Oracle) (R pk : Bytes) (h : keyAddrOf o pk = keyAddress R) :
    ed25519Raw pk = some R ∨ AddrCollision o R pk := by
  cases hr : ed25519Raw pk with
  | none => exact Or.inr (Or.inr ⟨hr, by rw [← keyAddrOf_other o hr]; exact h⟩)
  | some R' =>
    by_cases he : R' = R
    · left; rw [he]
    · right; left
      exact ⟨R', hr, ed25519Raw_length hr, he, by rw [← keyAddrOf_ed25519 o hr]; exact h⟩

/-! ### hypothesis-free forms: signed by the proposer, or a SHA-256 collision is in hand -/

theorem header_by_proposer_or_collision (o : Oracle) (R bs : Bytes) (sh : SignedHeader)
    (h : classify o (keyAddress R) bs = .hdrAccepted sh) :
    SignedByProposer o R sh ∨ AddrCollision o R sh.signer.pubKey := by
  rcases key_with_proposer_address o R _ (accepted_header_key_bound o _ bs sh h).2 with hk | hc
  · exact Or.inl ⟨hk, (admit_selfconsistent_partial o _ bs sh h).2.2.2⟩
  · exact Or.inr hc

theorem data_by_proposer_or_collision (o : Oracle) (R bs : Bytes) (sd : SignedData)
    (h : classify o (keyAddress R) bs = .dataAccepted sd) :
    DataSignedByProposer o R sd ∨ AddrCollision o R sd.signer.pubKey := by
  rcases key_with_proposer_address o R _ (accepted_data_key_bound o _ bs sd h).2 with hk | hc
  · exact Or.inl ⟨hk, (admit_data_selfconsistent_partial o _ bs sd (admit_data_via_classify o _ bs sd h)).2.2.1⟩
  · exact Or.inr hc

theorem p2p_by_proposer_or_collision (o : Oracle) (R : Bytes) (sh : SignedHeader)
    (h : p2pAdmit o (keyAddress R) sh = true) :
    SignedByProposer o R sh ∨ AddrCollision o R sh.signer.pubKey := by
  rcases key_with_proposer_address o R _ (admitted_p2p_key_bound o _ sh h).2 with hk | hc
  · exact Or.inl ⟨hk, (admit_p2p_selfconsistent_partial o _ sh h).2.2.2.2⟩
  · exact Or.inr hc

/-! ### the full statements — THEOREMS of the repaired code, under the two explicit no-collision hypotheses -/

/-- **every header accepted from the DA layer is signed by the genesis proposer** -/
theorem C03_header_full (R : Bytes) (hnc : AddrNoCollision R) (o : Oracle) (bs : Bytes) (sh : SignedHeader)
    (hother : OtherKeyTypeNoCollision o R sh.signer.pubKey)
    (h : classify o (keyAddress R) bs = .hdrAccepted sh) : SignedByProposer o R sh :=
  (header_by_proposer_or_collision o R bs sh h).resolve_right (no_collision_of_hyps hnc hother)

/-- **every signed-data blob accepted from the DA layer is signed by the genesis proposer** -/
theorem C03_data_full (R : Bytes) (hnc : AddrNoCollision R) (o : Oracle) (bs : Bytes) (sd : SignedData)
    (hother : OtherKeyTypeNoCollision o R sd.signer.pubKey)
    (h : classify o (keyAddress R) bs = .dataAccepted sd) : DataSignedByProposer o R sd :=
  (data_by_proposer_or_collision o R bs sd h).resolve_right (no_collision_of_hyps hnc hother)

/-- **every header admitted from the P2P header store is signed by the genesis proposer** -/
theorem C03_p2p_full (R : Bytes) (hnc : AddrNoCollision R) (o : Oracle) (sh : SignedHeader)
    (hother : OtherKeyTypeNoCollision o R sh.signer.pubKey)
    (h : p2pAdmit o (keyAddress R) sh = true) : SignedByProposer o R sh :=
  (p2p_by_proposer_or_collision o R sh h).resolve_right (no_collision_of_hyps hnc hother)

/-! ### which verification returned `true`

In the statements above the oracle `o` is quantified independently of the item: that `o.hdrSigOk` is the result of
verifying THIS header's signature is established outside Lean, by `Oracles()` of the harness (it decodes the blob
with the repository's decoder and calls the real `PubKey.Verify` over the default signature payload
`Header.MarshalBinary()` / over `Data.MarshalBinary()`).  `Crypto.oracleFor` states that computation in Lean —
the third-party crypto as FUNCTIONS (`keyOk`, `verify key payload signature`, `keyAddr`) applied to what the blob
decodes to — and for oracles of that form the conclusions name the verification: -/

/-- an accepted header's signature was verified under the key it carries over the canonical encoding of the
accepted header -/
theorem accepted_header_verified (c : Crypto) (p bs : Bytes) (sh : SignedHeader)
    (h : classify (c.oracleFor bs) p bs = .hdrAccepted sh) :
    c.verify sh.signer.pubKey sh.header.encode sh.signature = true := by
  obtain ⟨hs, hv, _⟩ := (classify_hdrAccepted_iff _ p bs sh).1 h
  have hd := SignedHeader.decode_true_of_decode _ bs sh ((headerStage_ok_iff _ bs sh).1 hs)
  have := ((validateBasicWire_iff _ sh).1 hv).2.2.2.2.2
  simpa [Crypto.oracleFor, hd] using this

theorem accepted_data_verified (c : Crypto) (p bs : Bytes) (sd : SignedData)
    (h : classify (c.oracleFor bs) p bs = .dataAccepted sd) :
    c.verify sd.signer.pubKey sd.data.encode sd.signature = true := by
  obtain ⟨hs, _, _, hv⟩ := (classifyData_accepted_iff _ p bs sd).1 (admit_data_via_classify _ p bs sd h)
  have hd := SignedData.decode_true_of_decode _ bs sd hs
  have := ((validSignedData_iff _ p sd).1 hv).2.2.2
  simpa [Crypto.oracleFor, hd] using this

/-- the full statement with the verification named: an accepted header carries the proposer's key `R` and
`verify (carried key) (encoding of the header) (carried signature)` returned true — or a collision is in hand -/
theorem C03_header_full_verified (c : Crypto) (R bs : Bytes) (sh : SignedHeader)
    (h : classify (c.oracleFor bs) (keyAddress R) bs = .hdrAccepted sh) :
    (ed25519Raw sh.signer.pubKey = some R ∧ c.verify sh.signer.pubKey sh.header.encode sh.signature = true) ∨
    AddrCollision (c.oracleFor bs) R sh.signer.pubKey := by
  rcases header_by_proposer_or_collision _ R bs sh h with h1 | h1
  · exact Or.inl ⟨h1.1, accepted_header_verified c _ bs sh h⟩
  · exact Or.inr h1

/-! ### witnesses: genuine items are accepted (non-vacuity); the old forgeries are now rejected -/

/-- the genesis proposer's raw Ed25519 key, its marshalled form (what `crypto.MarshalPublicKey` writes), and a
third party's -/
def proposerRaw : Bytes := List.replicate 32 1
def proposerKey : Bytes := [8, 1, 18, 32] ++ proposerRaw
def foreignRaw : Bytes := List.replicate 32 2
def foreignKey : Bytes := [8, 1, 18, 32] ++ foreignRaw
/-- the address genesis names -/
def proposer : Bytes := keyAddress proposerRaw
/-- every key parses, every signature verifies under the key that is carried -/
def forgeO : Oracle := { keyOk := true, hdrSigOk := true, dataSigOk := true }

def genuineHeader : SignedHeader :=
  { header := { height := 1, time := 5, proposerAddress := proposer, chainId := "c" }, signature := [5, 5],
    signer := { address := proposer, pubKey := proposerKey } }
def genuineData : SignedData :=
  { data := { metadata := some { chainId := "c", height := 1, time := 5 }, txs := [[0xde, 0xad]] },
    signature := [6, 6], signer := { address := proposer, pubKey := proposerKey } }
/-- the self-consistent forgery of the finding: names the proposer's address, signed by the third party with ITS
key, the signer claiming the proposer's address -/
def forgedHeader : SignedHeader := { genuineHeader with signer := { address := proposer, pubKey := foreignKey } }
def forgedData : SignedData := { genuineData with signer := { address := proposer, pubKey := foreignKey } }

theorem genuine_header_accepted : classify forgeO proposer genuineHeader.encode = .hdrAccepted genuineHeader := by
  decide +kernel
theorem genuine_data_accepted : classify forgeO proposer genuineData.encode = .dataAccepted genuineData := by
  decide +kernel
theorem genuine_header_p2p_admitted : p2pAdmit forgeO proposer genuineHeader = true := by decide +kernel
example : SignedByProposer forgeO proposerRaw genuineHeader := ⟨by decide +kernel, rfl⟩
example : SignedByProposer forgeO proposerRaw genuineHeader ∨ AddrCollision forgeO proposerRaw genuineHeader.signer.pubKey :=
  header_by_proposer_or_collision forgeO proposerRaw _ _ genuine_header_accepted
example : DataSignedByProposer forgeO proposerRaw genuineData ∨ AddrCollision forgeO proposerRaw genuineData.signer.pubKey :=
  data_by_proposer_or_collision forgeO proposerRaw _ _ genuine_data_accepted
example : SignedByProposer forgeO proposerRaw genuineHeader ∨ AddrCollision forgeO proposerRaw genuineHeader.signer.pubKey :=
  p2p_by_proposer_or_collision forgeO proposerRaw _ genuine_header_p2p_admitted
/- the full theorems apply to the accepted genuine items (the SHA-256 hypothesis stays a hypothesis; the
other-key-type one is discharged: the carried key IS an Ed25519 key) -/
example (hnc : AddrNoCollision proposerRaw) : SignedByProposer forgeO proposerRaw genuineHeader :=
  C03_header_full _ hnc _ _ _ (fun h => absurd h (by decide +kernel)) genuine_header_accepted
example (hnc : AddrNoCollision proposerRaw) : DataSignedByProposer forgeO proposerRaw genuineData :=
  C03_data_full _ hnc _ _ _ (fun h => absurd h (by decide +kernel)) genuine_data_accepted
example (hnc : AddrNoCollision proposerRaw) : SignedByProposer forgeO proposerRaw genuineHeader :=
  C03_p2p_full _ hnc _ _ (fun h => absurd h (by decide +kernel)) genuine_header_p2p_admitted
/-- the same key in a non-canonical libp2p envelope (unknown field appended, enum value wrapping 32 bits) is still
the proposer's key -/
example : ed25519Raw ([8, 0x81, 0x80, 0x80, 0x80, 0x10, 18, 32] ++ proposerRaw ++ [72, 7]) = some proposerRaw := by
  decide +kernel

/-- a toy crypto for the non-vacuity example: every key parses, the only valid signature is `[5, 5]` under the
proposer's key -/
def toyCrypto : Crypto :=
  { keyOk := fun _ => true, verify := fun k _ s => k == proposerKey && s == [5, 5], keyAddr := fun _ => [] }
example : classify (toyCrypto.oracleFor genuineHeader.encode) proposer genuineHeader.encode = .hdrAccepted genuineHeader ∧
    classify (toyCrypto.oracleFor forgedHeader.encode) proposer forgedHeader.encode = .ignored := by decide +kernel

/-- kernel-evaluated: **the old forged header is now rejected** by the DA path (not a header; not data either) -/
theorem forged_header_rejected : classify forgeO proposer forgedHeader.encode = .ignored := by decide +kernel
/-- kernel-evaluated: **the old forged signed-data blob is now rejected** -/
theorem forged_data_rejected : classify forgeO proposer forgedData.encode = .ignored := by decide +kernel
/-- kernel-evaluated: **the old forged header is no longer admitted by the P2P path** -/
theorem forged_header_p2p_rejected : p2pAdmit forgeO proposer forgedHeader = false := by decide +kernel
/-- and it is neither marked DA-included nor queued for sync -/
theorem forged_header_not_marked_not_queued :
    (handleBlobs proposer {} 7 [(forgedHeader.encode, forgeO), (forgedData.encode, forgeO)] []).1.hMarks = [] ∧
    (handleBlobs proposer {} 7 [(forgedHeader.encode, forgeO), (forgedData.encode, forgeO)] []).1.dMarks = [] ∧
    (handleBlobs proposer {} 7 [(forgedHeader.encode, forgeO), (forgedData.encode, forgeO)] []).2.length = 0 := by
  decide +kernel

/-! ## the P2P library entry (go-header) and the header store of a header-only (light) node

`p2pLibAdmit o trusted bs` is what go-header does with a header received over gossip or in an exchange session
before it is stored (full nodes serve their store to light clients; header-only nodes keep nothing else):
`New()` + `UnmarshalBinary`, `Validate()`, then `header.Verify(trusted, untrusted)` — the library's general checks
(chain id, height above the trusted one, time order, not from the future) and `SignedHeader.Verify` (same proposer
address; for adjacent heights the hash link).  Since /repo 35dfc53 `Validate()` is `ValidateBasic()`; before, the
method promoted from the embedded unsigned `Header` (a proposer address is present): `p2pLibAdmitOld`. -/

theorem p2plib_accepted_iff (o : Oracle) (tr : Option SignedHeader) (bs : Bytes) :
    p2pLibAdmit o tr bs = .accepted ↔
      ∃ sh, headerStage o bs = .ok sh ∧ validateBasicWire o sh = true ∧ ∀ t, tr = some t → libVerify t sh = true := by
  unfold p2pLibAdmit p2pLibAdmitWith libValidate
  cases hs : headerStage o bs with
  | wireErr => simp
  | fromProtoErr => simp
  | ok sh =>
    cases hv : validateBasicWire o sh with
    | false => simp [hv]
    | true =>
      cases tr with
      | none => simp [hv]
      | some t => cases hl : libVerify t sh <;> simp [hv, hl]

/-- what `header.Verify` ties the received header to: the trusted header's proposer address, a greater height,
and — when it is the next height — the trusted header's hash -/
theorem libVerify_spec (tr un : SignedHeader) (h : libVerify tr un = true) :
    un.header.proposerAddress = tr.header.proposerAddress ∧ un.header.chainId = tr.header.chainId ∧
    tr.header.height < un.header.height ∧
    (tr.header.height + 1 = un.header.height → un.header.lastHeaderHash = tr.header.hash) := by
  simp only [libVerify, Bool.and_eq_true, Bool.or_eq_true, decide_eq_true_eq, Bool.not_eq_true', decide_eq_false_iff_not] at h
  obtain ⟨⟨⟨⟨⟨h1, h2⟩, _⟩, _⟩, h5⟩, h6⟩ := h
  refine ⟨h5, h1, h2, fun ha => ?_⟩
  rcases h6 with h6 | h6
  · exact absurd ha h6
  · exact h6.symm

/-- accepted against a trusted header naming the proposer ⇒ it passes the test of the P2P admission path -/
theorem p2plib_accepted_admitted (o : Oracle) (p : Bytes) (t : SignedHeader) (bs : Bytes)
    (hp : t.header.proposerAddress = p) (h : p2pLibAdmit o (some t) bs = .accepted) :
    ∃ sh, headerStage o bs = .ok sh ∧ p2pAdmit o p sh = true ∧ libVerify t sh = true := by
  obtain ⟨sh, hs, hv, hl⟩ := (p2plib_accepted_iff o (some t) bs).1 h
  have hl' := hl t rfl
  exact ⟨sh, hs, by simp [p2pAdmit, hv, (libVerify_spec t sh hl').1, hp], hl'⟩

/-- hypothesis-free form -/
theorem p2plib_by_proposer_or_collision (o : Oracle) (R : Bytes) (t : SignedHeader) (bs : Bytes)
    (hp : t.header.proposerAddress = keyAddress R) (h : p2pLibAdmit o (some t) bs = .accepted) :
    ∃ sh, headerStage o bs = .ok sh ∧ sh.header.proposerAddress = keyAddress R ∧
      (SignedByProposer o R sh ∨ AddrCollision o R sh.signer.pubKey) := by
  obtain ⟨sh, hs, ha, hl⟩ := p2plib_accepted_admitted o _ t bs hp h
  exact ⟨sh, hs, by rw [(libVerify_spec t sh hl).1, hp], p2p_by_proposer_or_collision o R sh ha⟩

/-- **every header the P2P library entry accepts against a trusted header that names the genesis proposer is
signed by the genesis proposer** (full and light nodes alike; same hypotheses as `C03_header_full`) — and it names
the proposer again, so it can serve as the next trusted header -/
theorem C03_p2plib_full (R : Bytes) (hnc : AddrNoCollision R) (o : Oracle) (t : SignedHeader) (bs : Bytes)
    (hp : t.header.proposerAddress = keyAddress R) (h : p2pLibAdmit o (some t) bs = .accepted) :
    ∃ sh, headerStage o bs = .ok sh ∧ sh.header.proposerAddress = keyAddress R ∧
      (OtherKeyTypeNoCollision o R sh.signer.pubKey → SignedByProposer o R sh) := by
  obtain ⟨sh, hs, hpa, hor⟩ := p2plib_by_proposer_or_collision o R t bs hp h
  exact ⟨sh, hs, hpa, fun hother => hor.resolve_right (no_collision_of_hyps hnc hother)⟩

/-- the first header of a node without a trusted header (it is then compared with a configured trusted hash /
genesis, outside this model): `Validate()` alone already makes it self-consistent — if it names the genesis
proposer it is signed by the genesis proposer -/
theorem C03_p2plib_first_header (o : Oracle) (R bs : Bytes) (h : p2pLibAdmit o none bs = .accepted) :
    ∃ sh, headerStage o bs = .ok sh ∧
      (sh.header.proposerAddress = keyAddress R → SignedByProposer o R sh ∨ AddrCollision o R sh.signer.pubKey) := by
  obtain ⟨sh, hs, hv, _⟩ := (p2plib_accepted_iff o none bs).1 h
  exact ⟨sh, hs, fun hp => p2p_by_proposer_or_collision o R sh (by simp [p2pAdmit, hv, hp])⟩

/-- the header store of a header-only node: messages are received one by one, each is put through the library
entry against the current head, and appended (becoming the head) when accepted.  (go-header: subscriber →
syncer → store; header ranges and the bifurcation of non-adjacent soft failures are not modelled.) -/
def lightStore : SignedHeader → List (Bytes × Oracle) → List (SignedHeader × Oracle) → SignedHeader × List (SignedHeader × Oracle)
  | head, [], acc => (head, acc)
  | head, (b, o) :: rest, acc =>
    match headerStage o b with
    | .ok sh => if p2pLibAdmit o (some head) b = .accepted then lightStore sh rest (acc ++ [(sh, o)])
                else lightStore head rest acc
    | _ => lightStore head rest acc

/-- the invariant of the store once it has a head that names the proposer (the inductive step; the initial
condition is established by `p2pBootAdmit`, see `light_store_only_proposer_headers` below): whatever arrives over
P2P in whatever order, only headers signed by the genesis proposer are appended (or a collision is in hand); the
head keeps naming the proposer and heights only grow. -/
theorem light_store_step_invariant (R : Bytes) :
    ∀ (msgs : List (Bytes × Oracle)) (head : SignedHeader) (acc : List (SignedHeader × Oracle)),
      head.header.proposerAddress = keyAddress R →
      (∀ e ∈ acc, SignedByProposer e.2 R e.1 ∨ AddrCollision e.2 R e.1.signer.pubKey) →
      (lightStore head msgs acc).1.header.proposerAddress = keyAddress R ∧
      head.header.height ≤ (lightStore head msgs acc).1.header.height ∧
      ∀ e ∈ (lightStore head msgs acc).2, SignedByProposer e.2 R e.1 ∨ AddrCollision e.2 R e.1.signer.pubKey := by
  intro msgs
  induction msgs with
  | nil => intro head acc hp hacc; exact ⟨hp, Nat.le_refl _, hacc⟩
  | cons m rest ih =>
    intro head acc hp hacc
    obtain ⟨b, o⟩ := m
    unfold lightStore
    cases hs : headerStage o b with
    | wireErr => exact ih head acc hp hacc
    | fromProtoErr => exact ih head acc hp hacc
    | ok sh =>
      simp only
      split
      · rename_i hacc'
        obtain ⟨sh', hs', hpa, hor⟩ := p2plib_by_proposer_or_collision o R head b hp hacc'
        have : sh' = sh := by rw [hs] at hs'; injection hs' with e; exact e.symm
        subst this
        obtain ⟨_, _, ha, hl⟩ := p2plib_accepted_admitted o _ head b hp hacc'
        rename_i sh2 hs2
        have e2 : sh2 = sh' := by rw [hs] at hs2; injection hs2 with e; exact e.symm
        subst e2
        obtain ⟨a, b', c⟩ := ih sh2 (acc ++ [(sh2, o)]) hpa (by
          intro e he
          rcases List.mem_append.mp he with he | he
          · exact hacc e he
          · have : e = (sh2, o) := by simpa using he
            subst this; exact hor)
        exact ⟨a, Nat.le_trans (Nat.le_of_lt (libVerify_spec head sh2 hl).2.2.1) b', c⟩
      · exact ih head acc hp hacc

/-! ### witnesses -/

/-- the next header as the proposer signs it -/
def genuineNext : SignedHeader :=
  { header := { height := 2, time := 6, lastHeaderHash := genuineHeader.header.hash, proposerAddress := proposer, chainId := "c" },
    signature := [7, 7], signer := { address := proposer, pubKey := proposerKey } }
/-- the same header as anybody can write it: no signature, no signer — it names the proposer and links to the head -/
def unsignedNext : SignedHeader := { genuineNext with signature := [], signer := {} }
/-- nothing verifies: no key, no signature -/
def nothingO : Oracle := { keyOk := false, hdrSigOk := false, dataSigOk := false }

/-- kernel-evaluated: **before /repo 35dfc53 the library entry accepted an unsigned header** that names the proposer
and links to the head (it entered the P2P header store of full and light nodes) -/
theorem old_p2plib_accepted_unsigned :
    p2pLibAdmitOld nothingO (some genuineHeader) unsignedNext.encode = .accepted := by decide +kernel
/-- and a forged one under the proposer's address with a foreign key, and a garbage-signed one -/
theorem old_p2plib_accepted_forged :
    p2pLibAdmitOld forgeO (some genuineHeader)
      ({ genuineNext with signer := { address := proposer, pubKey := foreignKey } } : SignedHeader).encode = .accepted ∧
    p2pLibAdmitOld { forgeO with hdrSigOk := false } (some genuineHeader) genuineNext.encode = .accepted := by
  decide +kernel
/-- kernel-evaluated: **now they are rejected at `Validate()`** -/
theorem new_p2plib_rejects_unsigned :
    p2pLibAdmit nothingO (some genuineHeader) unsignedNext.encode = .rejValidate ∧
    p2pLibAdmit forgeO (some genuineHeader)
      ({ genuineNext with signer := { address := proposer, pubKey := foreignKey } } : SignedHeader).encode = .rejValidate ∧
    p2pLibAdmit { forgeO with hdrSigOk := false } (some genuineHeader) genuineNext.encode = .rejValidate ∧
    p2pLibAdmit nothingO none unsignedNext.encode = .rejValidate := by decide +kernel
/-- non-vacuity: the genuine next header is accepted (against the head, against nothing), a genuine header with a
broken link or an old height is rejected at `Verify` -/
theorem genuine_next_accepted :
    p2pLibAdmit forgeO (some genuineHeader) genuineNext.encode = .accepted ∧
    p2pLibAdmit forgeO none genuineNext.encode = .accepted ∧
    p2pLibAdmit forgeO (some genuineNext) genuineHeader.encode = .rejVerify ∧
    p2pLibAdmit forgeO (some genuineHeader)
      ({ genuineNext with header := { genuineNext.header with lastHeaderHash := [1] } } : SignedHeader).encode = .rejVerify := by
  decide +kernel
example : ∃ sh, headerStage forgeO genuineNext.encode = .ok sh ∧ sh.header.proposerAddress = keyAddress proposerRaw ∧
    (SignedByProposer forgeO proposerRaw sh ∨ AddrCollision forgeO proposerRaw sh.signer.pubKey) :=
  p2plib_by_proposer_or_collision forgeO proposerRaw genuineHeader _ rfl genuine_next_accepted.1
example (hnc : AddrNoCollision proposerRaw) : ∃ sh, headerStage forgeO genuineNext.encode = .ok sh ∧
    sh.header.proposerAddress = keyAddress proposerRaw ∧
    (OtherKeyTypeNoCollision forgeO proposerRaw sh.signer.pubKey → SignedByProposer forgeO proposerRaw sh) :=
  C03_p2plib_full proposerRaw hnc forgeO genuineHeader _ rfl genuine_next_accepted.1
/-- a light node fed the unsigned header, the forged one, junk, then the genuine one stores the genuine one only -/
example : ((lightStore genuineHeader
      [(unsignedNext.encode, nothingO), ([0xff], nothingO), (genuineNext.encode, forgeO), (unsignedNext.encode, nothingO)] []).2.map
        (fun e => e.1.header.height)) = [2] := by decide +kernel

/-! ### the first header: how the store gets its head (the REAL initial condition)

A node without a trusted hash asks its peers for the header at the initial height (`SyncService.setFirstAndStart` →
`Exchange.GetByHeight`).  go-header only DECODES the answer to that single request (it validates what arrives through
gossip and exchange sessions, `p2p/subscriber.go:214`, `p2p/session.go:340`, nothing else).  `initStoreAndStartSyncer`
therefore has to do everything itself before `store.Init`: since /repo 5bb4988 it requires the genesis proposer
ADDRESS (before: any decodable header became the head, `p2pBootAdmitOld`), and since /repo 3ea3561 it calls
`Validate()` first (between the two commits an UNSIGNED header that merely names the proposer seeded the store:
`p2pBootAdmitMid`, witness below).  With a configured trusted hash the header is fetched by hash and goes through
the same function. -/

theorem p2pboot_accepted_iff (o : Oracle) (p bs : Bytes) :
    p2pBootAdmit o p bs = .accepted ↔ ∃ sh, headerStage o bs = .ok sh ∧ p2pAdmit o p sh = true := by
  unfold p2pBootAdmit libValidate p2pAdmit
  cases hs : headerStage o bs with
  | wireErr => simp
  | fromProtoErr => simp
  | ok sh =>
    cases hv : validateBasicWire o sh <;> by_cases hp : sh.header.proposerAddress = p <;> simp [hv, hp]

theorem p2pboot_by_proposer_or_collision (o : Oracle) (R bs : Bytes)
    (h : p2pBootAdmit o (keyAddress R) bs = .accepted) :
    ∃ sh, headerStage o bs = .ok sh ∧ sh.header.proposerAddress = keyAddress R ∧
      (SignedByProposer o R sh ∨ AddrCollision o R sh.signer.pubKey) := by
  obtain ⟨sh, hs, ha⟩ := (p2pboot_accepted_iff o _ bs).1 h
  exact ⟨sh, hs, (admit_p2p_selfconsistent_partial o _ sh ha).1, p2p_by_proposer_or_collision o R sh ha⟩

/-- **the first header of the P2P header store is signed by the genesis proposer** -/
theorem C03_p2pboot_full (R : Bytes) (hnc : AddrNoCollision R) (o : Oracle) (bs : Bytes)
    (h : p2pBootAdmit o (keyAddress R) bs = .accepted) :
    ∃ sh, headerStage o bs = .ok sh ∧ sh.header.proposerAddress = keyAddress R ∧
      (OtherKeyTypeNoCollision o R sh.signer.pubKey → SignedByProposer o R sh) := by
  obtain ⟨sh, hs, hpa, hor⟩ := p2pboot_by_proposer_or_collision o R bs h
  exact ⟨sh, hs, hpa, fun hother => hor.resolve_right (no_collision_of_hyps hnc hother)⟩

/-- a header-only node from its start: the answer of a peer for the initial height goes through `p2pBootAdmit`
(if rejected the store stays empty and the service does not start); then every received message goes through
`lightStore` -/
def lightNode (proposer : Bytes) (first : Bytes × Oracle) (msgs : List (Bytes × Oracle)) : List (SignedHeader × Oracle) :=
  match headerStage first.2 first.1 with
  | .ok sh =>
    if p2pBootAdmit first.2 proposer first.1 = .accepted then (lightStore sh msgs [(sh, first.2)]).2 else []
  | _ => []

/-- **The store of a header-only node holds only headers signed by the genesis proposer** — from the node's real
initial condition (no assumption on a head: the first header is whatever a peer sends), for whatever arrives over
P2P afterwards, in whatever order (or a SHA-256 collision is in hand). -/
theorem light_store_only_proposer_headers (R : Bytes) (first : Bytes × Oracle) (msgs : List (Bytes × Oracle)) :
    ∀ e ∈ lightNode (keyAddress R) first msgs, SignedByProposer e.2 R e.1 ∨ AddrCollision e.2 R e.1.signer.pubKey := by
  unfold lightNode
  cases hs : headerStage first.2 first.1 with
  | wireErr => intro e he; simp at he
  | fromProtoErr => intro e he; simp at he
  | ok sh =>
    simp only
    split
    · rename_i hacc
      obtain ⟨sh', hs', hpa, hor⟩ := p2pboot_by_proposer_or_collision first.2 R first.1 hacc
      have : sh' = sh := by rw [hs] at hs'; injection hs' with e; exact e.symm
      subst this
      exact (light_store_step_invariant R msgs sh' [(sh', first.2)] hpa (by
        intro e he
        have : e = (sh', first.2) := by simpa using he
        subst this; exact hor)).2.2
    · intro e he; simp at he

/-- the header of a foreign chain: self-consistent under the third party's own key and address -/
def foreignChainHeader : SignedHeader :=
  { header := { height := 1, time := 5, proposerAddress := keyAddress foreignRaw, chainId := "c" }, signature := [5, 5],
    signer := { address := keyAddress foreignRaw, pubKey := foreignKey } }

/-- kernel-evaluated: **before /repo 5bb4988 a peer could seed the store with a foreign chain**; now the header is
rejected at the genesis check, the genuine first header is stored -/
theorem old_p2pboot_accepted_foreign_chain :
    p2pBootAdmitOld forgeO foreignChainHeader.encode = .accepted ∧
    p2pBootAdmit forgeO proposer foreignChainHeader.encode = .rejGenesis ∧
    p2pBootAdmit forgeO proposer genuineHeader.encode = .accepted := by decide +kernel
/-- kernel-evaluated: **between /repo 5bb4988 and 3ea3561 an unsigned header that merely NAMES the proposer seeded
the store** (go-header does not validate the answer to `GetByHeight`); so did a garbage-signed one and the forgery
with a foreign key; now all are rejected at `Validate()` -/
theorem old_p2pboot_accepted_unsigned_header_naming_the_proposer :
    p2pBootAdmitMid nothingO proposer unsignedNext.encode = .accepted ∧
    p2pBootAdmitMid { forgeO with hdrSigOk := false } proposer genuineHeader.encode = .accepted ∧
    p2pBootAdmitMid forgeO proposer forgedHeader.encode = .accepted ∧
    p2pBootAdmit nothingO proposer unsignedNext.encode = .rejValidate ∧
    p2pBootAdmit { forgeO with hdrSigOk := false } proposer genuineHeader.encode = .rejValidate ∧
    p2pBootAdmit forgeO proposer forgedHeader.encode = .rejValidate := by decide +kernel
/-- the data store's first item: the old init path panicked on an item without metadata, now it is rejected -/
theorem old_p2pboot_data_panicked :
    p2pBootDataAdmitOld [0x12, 0x01, 0x78] = .panics ∧ p2pBootDataAdmit [0x12, 0x01, 0x78] = .rejValidate ∧
    p2pBootDataAdmit [0x0a, 0x00] = .accepted := by decide +kernel
example : (lightNode proposer (foreignChainHeader.encode, forgeO) [(genuineNext.encode, forgeO)]) = [] := by
  decide +kernel
example : ((lightNode proposer (genuineHeader.encode, forgeO)
      [(unsignedNext.encode, nothingO), (foreignChainHeader.encode, forgeO), (genuineNext.encode, forgeO)]).map
        (fun e => e.1.header.height)) = [1, 2] := by decide +kernel

/-! ### P2P data items: the library entry must not bring the node down

`types.Data` is the "header" type of the data sync service. It carries no signature: that only the proposer's data
is APPLIED is the business of the sync loop (data must match the `DataHash` of a proposer-signed header; not part
of this file).  What belongs here is the library entry: before /repo 8e620ca `Data.Validate()` accepted everything
and the accessors go-header reads next (`Height`, `ChainID`, `Time`) dereferenced a missing metadata — any peer
could crash the node with a data message without metadata (or an empty message). -/

theorem old_p2plibdat_panic_now_rejected (tr : Option Data) (bs : Bytes)
    (h : p2pLibDataAdmitOld tr bs = .panics) : p2pLibDataAdmit tr bs = .rejValidate := by
  unfold p2pLibDataAdmitOld at h
  unfold p2pLibDataAdmit libValidateData
  cases hd : Data.decode bs with
  | none => rw [hd] at h; simp at h
  | some d =>
    rw [hd] at h
    simp only at h ⊢
    cases hm : d.metadata with
    | none => simp
    | some m =>
      simp only [hm, Option.isNone_some, Bool.false_eq_true, ↓reduceIte] at h
      cases tr with
      | none => simp at h
      | some t => simp only at h; split at h <;> simp at h

theorem p2plibdat_agrees_elsewhere (tr : Option Data) (bs : Bytes) (v : LibVerdict)
    (h : p2pLibDataAdmitOld tr bs = v) (hv : v ≠ .panics) : p2pLibDataAdmit tr bs = v := by
  unfold p2pLibDataAdmitOld at h
  unfold p2pLibDataAdmit libValidateData
  cases hd : Data.decode bs with
  | none => rw [hd] at h; simpa using h
  | some d =>
    rw [hd] at h
    simp only at h ⊢
    cases hm : d.metadata with
    | none => simp [hm] at h; exact absurd h.symm hv
    | some m => simpa [hm] using h

/-- an accepted data item has its metadata (what `DataStoreRetrieveLoop` reads from the store) and the entry never
panics -/
theorem p2plibdat_accepted_has_metadata (tr : Option Data) (bs : Bytes) :
    p2pLibDataAdmit tr bs ≠ .panics ∧
    (p2pLibDataAdmit tr bs = .accepted → ∃ d, Data.decode bs = some d ∧ d.metadata.isSome = true) := by
  unfold p2pLibDataAdmit libValidateData
  cases hd : Data.decode bs with
  | none => simp
  | some d =>
    simp only
    cases hm : d.metadata.isSome with
    | false => simp
    | true =>
      cases tr with
      | none => simp [hm]
      | some t => simp only [Bool.not_true, Bool.false_eq_true, ↓reduceIte]; split <;> simp [hm]

def trustedData : Data := { metadata := some { chainId := "c", height := 1, time := 5 }, txs := [[1]] }
/-- kernel-evaluated: the old entry panicked on a data message that holds one transaction and nothing else, and on
the empty message; both are rejected now; a well-formed successor is accepted -/
theorem old_p2plibdat_panicked :
    p2pLibDataAdmitOld (some trustedData) [0x12, 0x01, 0x78] = .panics ∧
    p2pLibDataAdmitOld none [] = .panics ∧
    p2pLibDataAdmit (some trustedData) [0x12, 0x01, 0x78] = .rejValidate ∧
    p2pLibDataAdmit none [] = .rejValidate ∧
    p2pLibDataAdmit (some trustedData)
      ({ metadata := some { chainId := "c", height := 2, time := 6, lastDataHash := trustedData.hash }, txs := [[2]] } : Data).encode
      = .accepted := by decide +kernel

/-! ### the P2P data store: the clause is NOT met (recorded finding `C03/p2p-data-store/unsigned-data-accepted`)

C03 also speaks of what a node "stores … serves to light clients".  The data sync service stores and serves every
item the library entry accepts.  `types.Data` is unsigned by design and `Data.Validate()` asks for metadata only,
so anybody's data enters the P2P DATA store of a full node and is served on.  The full statement — an accepted
item is the data some proposer-signed header the node holds commits to — is false; what holds is kept as
`_partial`.  A repair needs signed P2P data, or the data sync service validating items against already verified
headers: a protocol change, not a patch. -/

/-- `d` is the data the header `sh` commits to -/
def DataOfHeader (sh : SignedHeader) (d : Data) : Prop :=
  sh.header.dataHash = d.daCommitment ∧ sh.header.height = (d.metadata.getD {}).height

/-- every data item the P2P library entry accepts is the data of one of the (proposer-signed) headers the node
holds -/
def C03_p2pdata_full : Prop :=
  ∀ (hdrs : List SignedHeader) (tr : Option Data) (bs : Bytes), p2pLibDataAdmit tr bs = .accepted →
    ∃ d, Data.decode bs = some d ∧ ∃ sh ∈ hdrs, DataOfHeader sh d

/-- third-party data: metadata present, linked to the trusted item, transactions nobody signed -/
def junkData : Data :=
  { metadata := some { chainId := "c", height := 2, time := 6, lastDataHash := trustedData.hash }, txs := [[0x66, 0x6f, 0x72, 0x67, 0x65, 0x64]] }

/-- kernel-evaluated: the entry accepts it, against a trusted item and against none -/
theorem junk_p2p_data_accepted :
    p2pLibDataAdmit (some trustedData) junkData.encode = .accepted ∧ p2pLibDataAdmit none junkData.encode = .accepted ∧
    Data.decode junkData.encode = some junkData := by decide +kernel

theorem C03_p2pdata_full_fails : ¬ C03_p2pdata_full := by
  intro h
  obtain ⟨d, hd, sh, hm, hdo, _⟩ := h [genuineNext] none junkData.encode junk_p2p_data_accepted.2.1
  rw [junk_p2p_data_accepted.2.2] at hd
  have hd' : d = junkData := (Option.some.inj hd).symm
  subst hd'
  have hs : sh = genuineNext := by simpa using hm
  subst hs
  revert hdo
  decide +kernel

/-- **what does hold for P2P data** (`_partial`): an accepted item decodes and carries its metadata (nothing
downstream dereferences nil), the entry never panics, and it is linked to the trusted item it was verified
against.  That junk data is never APPLIED — it stays out of the chain, the state and the block store — is the
sync loop's comparison with the proposer-signed header: `Spec.C02.C02_junk_data_harmless` (after /repo 4bb2ed2). -/
theorem C03_p2pdata_partial (tr : Option Data) (bs : Bytes) (h : p2pLibDataAdmit tr bs = .accepted) :
    ∃ d, Data.decode bs = some d ∧ d.metadata.isSome = true ∧ ∀ t, tr = some t → libVerifyData t d = true := by
  unfold p2pLibDataAdmit libValidateData at h
  cases hd : Data.decode bs with
  | none => rw [hd] at h; simp at h
  | some d =>
    rw [hd] at h
    simp only at h
    cases hm : d.metadata.isSome with
    | false => simp [hm] at h
    | true =>
      refine ⟨d, rfl, hm, ?_⟩
      intro t ht
      subst ht
      simp only [hm, Bool.not_true, Bool.false_eq_true, ↓reduceIte] at h
      split at h
      · assumption
      · simp at h
example : ∃ d, Data.decode junkData.encode = some d ∧ d.metadata.isSome = true ∧
    ∀ t, some trustedData = some t → libVerifyData t d = true :=
  C03_p2pdata_partial _ _ junk_p2p_data_accepted.1

/-! ## the head request after a break: go-header's trusting period

A node that starts with a stored head that is not recent asks its peers for THEIR head (`Syncer.Start` → `Head` →
`subjectiveHead`; the peers are the configured ones plus whoever was connected).  The answer went through `Validate()`
(`processResponses`).  Within the trusting period it is then verified against the stored head: `p2pLibAdmitTP` is
`p2pLibAdmit`, and `C03_p2plib_full` applies.  When the stored head is OLDER than the trusting period
(`headExpired`: go-header's `isExpired`) the answer becomes the new head **without `Verify`** ("automatic subjective
initialization"), and `store.Append` stores it when it is the next height (`staleStoreHead`).  ev-node binds
the store to the genesis proposer at the first header only (`p2pBootAdmit`): after the period anybody's self-signed
header that a peer calls the head is stored, served to light clients, and is what a light node verifies everything
later against.  Until /repo 700919b ev-node passed no trusting period (library default, 336 h): a head older than two
weeks was enough (former finding `C03/p2p-store/foreign-head-adopted-after-trusting-period`, op `p2pstale`, the real
`HeaderSyncService.Start`).  Since 700919b it passes `headTrustingPeriod` = 100·365·24 h: the model stays PARAMETRIC
in the period (`C03_p2plib_stale_fails`: a finite period admits the forgery once it has passed), the property holds
for every head younger than the period (`C03_p2plib_stale_holds_for_configured_period`), and the op line tells the
driver the configured value, to which the real service is held by behaviour for ages up to 91 years. -/

/-- the full statement for the head-request path, whatever the age of the stored head: what is admitted against a
head naming the genesis proposer names the proposer and is signed with the proposer's key (hypothesis-free form: or a
SHA-256 collision is in hand) -/
def C03_p2plib_stale_full : Prop :=
  ∀ (R : Bytes) (tp now : Int) (o : Oracle) (t : SignedHeader) (bs : Bytes),
    t.header.proposerAddress = keyAddress R → p2pLibAdmitTP tp now o (some t) bs = .accepted →
    ∃ sh, headerStage o bs = .ok sh ∧ sh.header.proposerAddress = keyAddress R ∧
      (SignedByProposer o R sh ∨ AddrCollision o R sh.signer.pubKey)

/-- what a peer can always make: the next height, hash-linked to the genuine head, signed with the peer's OWN key
under the peer's OWN address -/
def selfSignedNext : SignedHeader :=
  { header := { height := 2, time := 1000, lastHeaderHash := genuineHeader.header.hash,
                proposerAddress := keyAddress foreignRaw, chainId := "c" },
    signature := [7, 7], signer := { address := keyAddress foreignRaw, pubKey := foreignKey } }

/-- kernel-evaluated: the genuine head (time 5) with trusting period 100 — at `now = 50` the self-signed header is
rejected at `Verify` and the store keeps its head; at `now = 1001` (head expired) it is ACCEPTED and becomes the
store's head (height 2); the genuine next header is taken in both cases; the decoded item names the peer, not the
proposer -/
theorem stale_head_accepts_self_signed :
    p2pLibAdmitTP 100 50 forgeO (some genuineHeader) selfSignedNext.encode = .rejVerify ∧
    staleStoreHead 100 50 forgeO genuineHeader selfSignedNext.encode = 1 ∧
    p2pLibAdmitTP 100 1001 forgeO (some genuineHeader) selfSignedNext.encode = .accepted ∧
    staleStoreHead 100 1001 forgeO genuineHeader selfSignedNext.encode = 2 ∧
    staleStoreHead 100 50 forgeO genuineHeader genuineNext.encode = 2 ∧
    staleStoreHead 100 1001 forgeO genuineHeader genuineNext.encode = 2 ∧
    (match headerStage forgeO selfSignedNext.encode with
      | .ok sh => some sh.header.proposerAddress | _ => none) = some (keyAddress foreignRaw) ∧
    keyAddress foreignRaw ≠ keyAddress proposerRaw := by decide +kernel

/-- **the full statement fails on the current tree**: a head older than the trusting period, a self-signed forgery
admitted -/
theorem C03_p2plib_stale_fails : ¬ C03_p2plib_stale_full := by
  intro h
  obtain ⟨sh, hs, hpa, _⟩ := h proposerRaw 100 1001 forgeO genuineHeader selfSignedNext.encode rfl
    stale_head_accepts_self_signed.2.2.1
  have h7 := stale_head_accepts_self_signed.2.2.2.2.2.2.1
  rw [hs] at h7
  exact stale_head_accepts_self_signed.2.2.2.2.2.2.2 ((Option.some.inj h7).symm.trans hpa)

/-- within the trusting period the head-request path is the library entry (`Validate`, then `Verify` against the
stored head) -/
theorem p2plibTP_within_eq (tp now : Int) (o : Oracle) (t : SignedHeader) (bs : Bytes)
    (hw : headExpired tp now t = false) : p2pLibAdmitTP tp now o (some t) bs = p2pLibAdmit o (some t) bs := by
  unfold p2pLibAdmitTP p2pLibAdmit p2pLibAdmitWith
  simp [hw]

/-- with no stored head nothing depends on the clock -/
theorem p2plibTP_none_eq (tp now : Int) (o : Oracle) (bs : Bytes) :
    p2pLibAdmitTP tp now o none bs = p2pLibAdmit o none bs := by
  unfold p2pLibAdmitTP p2pLibAdmit p2pLibAdmitWith
  rfl

/-- **within the trusting period the full conclusion holds** (`C03_p2plib_full` under the explicit hypothesis that
the stored head has not expired: `head.time + trustingPeriod ≥ now`), for every head naming the proposer, every
answer, every oracle, every trusting period and clock -/
theorem C03_p2plib_within_trusting_period (R : Bytes) (hnc : AddrNoCollision R) (tp now : Int) (o : Oracle)
    (t : SignedHeader) (bs : Bytes) (hp : t.header.proposerAddress = keyAddress R)
    (hw : headExpired tp now t = false) (h : p2pLibAdmitTP tp now o (some t) bs = .accepted) :
    ∃ sh, headerStage o bs = .ok sh ∧ sh.header.proposerAddress = keyAddress R ∧
      (OtherKeyTypeNoCollision o R sh.signer.pubKey → SignedByProposer o R sh) :=
  C03_p2plib_full R hnc o t bs hp (p2plibTP_within_eq tp now o t bs hw ▸ h)

/-- the same without hypotheses on SHA-256, in the shape of `C03_p2plib_stale_full` -/
theorem p2plib_within_trusting_period_by_proposer_or_collision (R : Bytes) (tp now : Int) (o : Oracle)
    (t : SignedHeader) (bs : Bytes) (hp : t.header.proposerAddress = keyAddress R)
    (hw : headExpired tp now t = false) (h : p2pLibAdmitTP tp now o (some t) bs = .accepted) :
    ∃ sh, headerStage o bs = .ok sh ∧ sh.header.proposerAddress = keyAddress R ∧
      (SignedByProposer o R sh ∨ AddrCollision o R sh.signer.pubKey) :=
  p2plib_by_proposer_or_collision o R t bs hp (p2plibTP_within_eq tp now o t bs hw ▸ h)

/-- what the store's head is after the head request, within the period: the stored head, or a header one above it
that names the proposer, links to the stored head and is signed by the proposer (or a collision is in hand) — for
all inputs.  (This is what the op `p2pstale` prints.) -/
theorem stale_store_head_within_trusting_period (R : Bytes) (tp now : Int) (o : Oracle) (t : SignedHeader)
    (bs : Bytes) (hp : t.header.proposerAddress = keyAddress R) (hw : headExpired tp now t = false) :
    staleStoreHead tp now o t bs = t.header.height ∨
    ∃ sh, headerStage o bs = .ok sh ∧ staleStoreHead tp now o t bs = t.header.height + 1 ∧
      sh.header.height = t.header.height + 1 ∧ sh.header.proposerAddress = keyAddress R ∧
      sh.header.lastHeaderHash = t.header.hash ∧
      (SignedByProposer o R sh ∨ AddrCollision o R sh.signer.pubKey) := by
  unfold staleStoreHead
  cases hs : headerStage o bs with
  | wireErr => exact Or.inl rfl
  | fromProtoErr => exact Or.inl rfl
  | ok sh =>
    simp only
    split
    · rename_i hc
      simp only [Bool.and_eq_true, decide_eq_true_eq] at hc
      obtain ⟨hacc, hh⟩ := hc
      have hacc' : p2pLibAdmit o (some t) bs = .accepted := p2plibTP_within_eq tp now o t bs hw ▸ hacc
      obtain ⟨sh', hs', ha, hl⟩ := p2plib_accepted_admitted o _ t bs hp hacc'
      rw [hs] at hs'
      have : sh' = sh := by injection hs' with hs'; exact hs'.symm
      subst this
      have hv := libVerify_spec t sh' hl
      exact Or.inr ⟨sh', rfl, hh, hh, by rw [hv.1, hp], hv.2.2.2 hh.symm, p2p_by_proposer_or_collision o R sh' ha⟩
    · exact Or.inl rfl

example (hnc : AddrNoCollision proposerRaw) : ∃ sh, headerStage forgeO genuineNext.encode = .ok sh ∧
    sh.header.proposerAddress = keyAddress proposerRaw ∧
    (OtherKeyTypeNoCollision forgeO proposerRaw sh.signer.pubKey → SignedByProposer forgeO proposerRaw sh) :=
  C03_p2plib_within_trusting_period proposerRaw hnc 100 50 forgeO genuineHeader _ rfl (by decide +kernel)
    (by decide +kernel)

/-- nanoseconds per hour (the op line gives ages and periods in hours) -/
def hourNs : Int := 3600000000000
/-- go-header's default trusting period: what the node ran with before /repo 700919b -/
def oldDefaultTrustingPeriod : Int := 336 * hourNs
/-- `headTrustingPeriod` of pkg/sync/sync_service.go since /repo 700919b: 100·365·24 h -/
def configuredTrustingPeriod : Int := 876000 * hourNs

/-- **with the configured period the full conclusion holds for every head that is not older than the period**: for
every clock `now` with `now − head.time ≤ tp` (100 years for `tp = configuredTrustingPeriod`; the statement is for any
`tp`), every head naming the proposer, every answer and oracle -/
theorem C03_p2plib_stale_holds_for_configured_period (R : Bytes) (hnc : AddrNoCollision R) (tp now : Int)
    (o : Oracle) (t : SignedHeader) (bs : Bytes) (hp : t.header.proposerAddress = keyAddress R)
    (hage : now - int64Of t.header.time ≤ tp) (h : p2pLibAdmitTP tp now o (some t) bs = .accepted) :
    ∃ sh, headerStage o bs = .ok sh ∧ sh.header.proposerAddress = keyAddress R ∧
      (OtherKeyTypeNoCollision o R sh.signer.pubKey → SignedByProposer o R sh) :=
  C03_p2plib_within_trusting_period R hnc tp now o t bs hp
    (by simp only [headExpired, decide_eq_false_iff_not]; omega) h

/-- the store's head after the head request, same hypothesis: kept, or moved to the proposer's next header -/
theorem stale_store_head_for_configured_period (R : Bytes) (tp now : Int) (o : Oracle) (t : SignedHeader)
    (bs : Bytes) (hp : t.header.proposerAddress = keyAddress R) (hage : now - int64Of t.header.time ≤ tp) :
    staleStoreHead tp now o t bs = t.header.height ∨
    ∃ sh, headerStage o bs = .ok sh ∧ staleStoreHead tp now o t bs = t.header.height + 1 ∧
      sh.header.height = t.header.height + 1 ∧ sh.header.proposerAddress = keyAddress R ∧
      sh.header.lastHeaderHash = t.header.hash ∧
      (SignedByProposer o R sh ∨ AddrCollision o R sh.signer.pubKey) :=
  stale_store_head_within_trusting_period R tp now o t bs hp
    (by simp only [headExpired, decide_eq_false_iff_not]; omega)

/-- kernel-evaluated: **the 400-hour-old head** (the former finding's input: genuine head at time 5, the clock 400 h
later, a peer's self-signed next header) — with the old default period (336 h) the forgery was ADMITTED and became
the store's head; with the configured period (876000 h) it is rejected at `Verify` and the store keeps its head; so
it is at 20000 h and 800000 h (91 years); the genuine next header is taken in every case -/
theorem old_default_period_witness :
    p2pLibAdmitTP oldDefaultTrustingPeriod (5 + 400 * hourNs) forgeO (some genuineHeader) selfSignedNext.encode = .accepted ∧
    staleStoreHead oldDefaultTrustingPeriod (5 + 400 * hourNs) forgeO genuineHeader selfSignedNext.encode = 2 ∧
    p2pLibAdmitTP configuredTrustingPeriod (5 + 400 * hourNs) forgeO (some genuineHeader) selfSignedNext.encode = .rejVerify ∧
    staleStoreHead configuredTrustingPeriod (5 + 400 * hourNs) forgeO genuineHeader selfSignedNext.encode = 1 ∧
    staleStoreHead configuredTrustingPeriod (5 + 20000 * hourNs) forgeO genuineHeader selfSignedNext.encode = 1 ∧
    staleStoreHead configuredTrustingPeriod (5 + 800000 * hourNs) forgeO genuineHeader selfSignedNext.encode = 1 ∧
    staleStoreHead oldDefaultTrustingPeriod (5 + 400 * hourNs) forgeO genuineHeader genuineNext.encode = 2 ∧
    staleStoreHead configuredTrustingPeriod (5 + 400 * hourNs) forgeO genuineHeader genuineNext.encode = 2 := by
  decide +kernel

example (hnc : AddrNoCollision proposerRaw) : ∃ sh, headerStage forgeO genuineNext.encode = .ok sh ∧
    sh.header.proposerAddress = keyAddress proposerRaw ∧
    (OtherKeyTypeNoCollision forgeO proposerRaw sh.signer.pubKey → SignedByProposer forgeO proposerRaw sh) :=
  C03_p2plib_stale_holds_for_configured_period proposerRaw hnc configuredTrustingPeriod (5 + 400 * hourNs) forgeO
    genuineHeader _ rfl (by decide +kernel) (by decide +kernel)

/-! ## rejections that hold without any hypothesis -/

/-! ### the binding itself: near misses -/

/-- an item whose signer claims an address that is not the address of the key it carries is never accepted —
the right key with a wrong address field, or a foreign key under the proposer's address -/
theorem key_not_bound_never_accepted (o : Oracle) (p bs : Bytes) (sh : SignedHeader)
    (h : sh.signer.address ≠ keyAddrOf o sh.signer.pubKey) : classify o p bs ≠ .hdrAccepted sh :=
  fun hc => h (accepted_header_key_bound o p bs sh hc).1

theorem data_key_not_bound_never_accepted (o : Oracle) (p bs : Bytes) (sd : SignedData)
    (h : sd.signer.address ≠ keyAddrOf o sd.signer.pubKey) : classify o p bs ≠ .dataAccepted sd :=
  fun hc => h (accepted_data_key_bound o p bs sd hc).1

theorem key_not_bound_never_admitted_p2p (o : Oracle) (p : Bytes) (sh : SignedHeader)
    (h : sh.signer.address ≠ keyAddrOf o sh.signer.pubKey) : p2pAdmit o p sh = false := by
  cases hadm : p2pAdmit o p sh with
  | false => rfl
  | true => exact absurd (admitted_p2p_key_bound o p sh hadm).1 h
example : p2pAdmit forgeO proposer forgedHeader = false :=
  key_not_bound_never_admitted_p2p _ _ _ (by decide +kernel)
/-- the right key with a wrong address field -/
example : classify forgeO proposer
    ({ genuineHeader with signer := { address := [1, 2, 3], pubKey := proposerKey } } : SignedHeader).encode = .ignored := by
  decide +kernel

/-- **a foreign Ed25519 key is never accepted under the proposer's address** unless its SHA-256 collides: the
general form of `forged_*_rejected` (any header, any bytes, any oracle answers, any third-party key `R'`) -/
theorem foreign_key_never_accepted (o : Oracle) (R R' bs : Bytes) (sh : SignedHeader)
    (hk : ed25519Raw sh.signer.pubKey = some R') (hne : sha256 R' ≠ sha256 R) :
    classify o (keyAddress R) bs ≠ .hdrAccepted sh ∧ p2pAdmit o (keyAddress R) sh = false := by
  have hka : keyAddrOf o sh.signer.pubKey ≠ keyAddress R := by rw [keyAddrOf_ed25519 o hk]; exact hne
  refine ⟨fun hc => hka (accepted_header_key_bound o _ bs sh hc).2, ?_⟩
  cases hadm : p2pAdmit o (keyAddress R) sh with
  | false => rfl
  | true => exact absurd (admitted_p2p_key_bound o _ sh hadm).2 hka

theorem foreign_key_data_never_accepted (o : Oracle) (R R' bs : Bytes) (sd : SignedData)
    (hk : ed25519Raw sd.signer.pubKey = some R') (hne : sha256 R' ≠ sha256 R) :
    classify o (keyAddress R) bs ≠ .dataAccepted sd := by
  have hka : keyAddrOf o sd.signer.pubKey ≠ keyAddress R := by rw [keyAddrOf_ed25519 o hk]; exact hne
  exact fun hc => hka (accepted_data_key_bound o _ bs sd hc).2
example : classify forgeO (keyAddress proposerRaw) forgedHeader.encode ≠ .hdrAccepted forgedHeader ∧
    p2pAdmit forgeO (keyAddress proposerRaw) forgedHeader = false :=
  foreign_key_never_accepted forgeO proposerRaw foreignRaw _ _ (by decide +kernel) (by decide +kernel)

/-- an item without a key is never accepted, whatever address it claims -/
theorem key_absent_never_accepted (o : Oracle) (p bs : Bytes) :
    (∀ sh, sh.signer.pubKey = [] → classify o p bs ≠ .hdrAccepted sh ∧ p2pAdmit o p sh = false) ∧
    (∀ sd, sd.signer.pubKey = [] → classify o p bs ≠ .dataAccepted sd) := by
  refine ⟨fun sh hk => ⟨fun hc => (admit_selfconsistent_partial o p bs sh hc).2.2.1 hk, ?_⟩, fun sd hk hc => ?_⟩
  · cases hadm : p2pAdmit o p sh with
    | false => rfl
    | true => exact absurd hk (admit_p2p_selfconsistent_partial o p sh hadm).2.2.2.1
  · exact (admit_data_selfconsistent_partial o p bs sd (admit_data_via_classify o p bs sd hc)).2.1 hk
example : classify forgeO proposer
    ({ genuineHeader with signer := { address := proposer, pubKey := [] } } : SignedHeader).encode = .ignored := by
  decide +kernel

/-! ### (a) an item whose signature does not verify under the key it carries is never accepted

This covers unsigned and garbage-signed copies of genuine items and mutated copies carrying the old signature:
for all of them the real verification — the oracle — answers `false`. -/

theorem bad_header_signature_never_accepted (o : Oracle) (p bs : Bytes) (sh : SignedHeader)
    (h : o.hdrSigOk = false) : classify o p bs ≠ .hdrAccepted sh := by
  intro hc
  have := (admit_selfconsistent_partial o p bs sh hc).2.2.2
  rw [h] at this; exact Bool.false_ne_true this
example : classify { forgeO with hdrSigOk := false, dataSigOk := false } proposer genuineHeader.encode = .ignored := by
  decide +kernel

theorem bad_data_signature_never_accepted (o : Oracle) (p bs : Bytes) (sd : SignedData)
    (h : o.dataSigOk = false) : classify o p bs ≠ .dataAccepted sd := by
  intro hc
  have := (admit_data_selfconsistent_partial o p bs sd (admit_data_via_classify o p bs sd hc)).2.2.1
  rw [h] at this; exact Bool.false_ne_true this
example : classify { forgeO with dataSigOk := false } proposer genuineData.encode = .ignored := by decide +kernel

/-- a header without a signature is never accepted, whatever the oracle says -/
theorem unsigned_header_never_accepted (o : Oracle) (p bs : Bytes) (sh : SignedHeader)
    (h : classify o p bs = .hdrAccepted sh) : sh.signature ≠ [] := by
  obtain ⟨_, hvb, _⟩ := (classify_hdrAccepted_iff o p bs sh).1 h
  exact ((validateBasicWire_iff o sh).1 hvb).2.1
example : classify forgeO proposer ({ genuineHeader with signature := [] } : SignedHeader).encode = .ignored := by
  decide +kernel

/-- the same on the P2P path -/
theorem bad_signature_never_admitted_p2p (o : Oracle) (p : Bytes) (sh : SignedHeader)
    (h : o.hdrSigOk = false ∨ sh.signature = []) : p2pAdmit o p sh = false := by
  cases hadm : p2pAdmit o p sh with
  | false => rfl
  | true =>
    have := admit_p2p_selfconsistent_partial o p sh hadm
    rcases h with h | h
    · rw [h] at this; exact absurd this.2.2.2.2 Bool.false_ne_true
    · exact absurd h this.2.2.1
example : p2pAdmit { forgeO with hdrSigOk := false } proposer genuineHeader = false :=
  bad_signature_never_admitted_p2p _ _ _ (Or.inl rfl)

/-- hence such a blob is neither handed to sync nor marked -/
theorem unverifiable_blob_not_accepting (o : Oracle) (p b : Bytes) (h1 : o.hdrSigOk = false)
    (h2 : o.dataSigOk = false) : accepting (classify o p b) = false :=
  (accepting_eq_false_iff _).2 ⟨fun sh => bad_header_signature_never_accepted o p b sh h1,
    fun sd => bad_data_signature_never_accepted o p b sd h2⟩

/-! ### (b) a header naming another proposer address is never accepted -/

theorem foreign_proposer_header_never_accepted (o : Oracle) (p bs : Bytes) (sh : SignedHeader)
    (h : sh.header.proposerAddress ≠ p) : classify o p bs ≠ .hdrAccepted sh :=
  fun hc => h (admit_selfconsistent_partial o p bs sh hc).1

theorem foreign_proposer_header_never_admitted_p2p (o : Oracle) (p : Bytes) (sh : SignedHeader)
    (h : sh.header.proposerAddress ≠ p) : p2pAdmit o p sh = false := by
  cases hadm : p2pAdmit o p sh with
  | false => rfl
  | true => exact absurd (admit_p2p_selfconsistent_partial o p sh hadm).1 h
example : p2pAdmit forgeO [1, 2, 3] genuineHeader = false :=
  foreign_proposer_header_never_admitted_p2p _ _ _ (by decide +kernel)

/-- a self-consistent, correctly signed header of ANOTHER proposer (address of its own key everywhere) is
consumed as "unexpected sequencer": it is not re-tried as data, not handed on, not marked -/
theorem foreign_proposer_header_consumed (o : Oracle) (p bs : Bytes) (sh : SignedHeader)
    (hs : headerStage o bs = .ok sh) (hv : validateBasicWire o sh = true) (h : sh.header.proposerAddress ≠ p) :
    classify o p bs = .hdrUnexpectedSequencer := by
  have hne : bs.isEmpty = false := by
    cases bs with
    | nil => exact absurd hs (headerStage_nil o sh)
    | cons a l => rfl
  simp [classify, hne, hs, hv, h]
example : classify forgeO [1, 2, 3] genuineHeader.encode = .hdrUnexpectedSequencer := by decide +kernel

/-! ### (c) signed data with a foreign signer address, no transactions or no metadata is never accepted -/

theorem malformed_data_never_accepted (o : Oracle) (p bs : Bytes) (sd : SignedData)
    (h : sd.signer.address ≠ p ∨ sd.data.txs = [] ∨ sd.data.metadata = none) :
    classify o p bs ≠ .dataAccepted sd := by
  intro hc
  have hcd := admit_data_via_classify o p bs sd hc
  have h1 := admit_data_selfconsistent_partial o p bs sd hcd
  have h2 := ((classifyData_accepted_iff o p bs sd).1 hcd).2.2.1
  rcases h with h | h | h
  · exact h h1.1
  · exact h1.2.2.2 h
  · rw [h] at h2; simp at h2
example : classify forgeO [1, 2, 3] genuineData.encode = .ignored ∧
    classify forgeO proposer ({ genuineData with data := { genuineData.data with txs := [] } } : SignedData).encode = .ignored ∧
    classify forgeO proposer ({ genuineData with data := { genuineData.data with metadata := none } } : SignedData).encode = .ignored := by
  decide +kernel

/-! ## (d) non-interference at the hand-off: whatever is not signed by the proposer changes nothing -/

/-- the blob, read as a header or as signed data, is signed by the proposer -/
def BlobByProposer (o : Oracle) (R b : Bytes) : Prop :=
  (∃ sh, headerStage o b = .ok sh ∧ SignedByProposer o R sh) ∨
  (∃ sd, SignedData.decode (fun _ => o.keyOk) b = some sd ∧ DataSignedByProposer o R sd)

/-- the blob carries a different key with the proposer's address (a SHA-256 collision) -/
def BlobCollides (o : Oracle) (R b : Bytes) : Prop :=
  (∃ sh, headerStage o b = .ok sh ∧ AddrCollision o R sh.signer.pubKey) ∨
  (∃ sd, SignedData.decode (fun _ => o.keyOk) b = some sd ∧ AddrCollision o R sd.signer.pubKey)

/-- **only what the proposer signed is handed on or marked** (or a collision is in hand) -/
theorem accepted_blob_by_proposer_or_collision (o : Oracle) (R b : Bytes)
    (h : accepting (classify o (keyAddress R) b) = true) : BlobByProposer o R b ∨ BlobCollides o R b := by
  cases hc : classify o (keyAddress R) b with
  | hdrAccepted sh =>
    have hs := ((classify_hdrAccepted_iff o _ b sh).1 hc).1
    rcases header_by_proposer_or_collision o R b sh hc with h1 | h1
    · exact Or.inl (Or.inl ⟨sh, hs, h1⟩)
    · exact Or.inr (Or.inl ⟨sh, hs, h1⟩)
  | dataAccepted sd =>
    have hs := ((classifyData_accepted_iff o _ b sd).1 (admit_data_via_classify o _ b sd hc)).1
    rcases data_by_proposer_or_collision o R b sd hc with h1 | h1
    · exact Or.inl (Or.inr ⟨sd, hs, h1⟩)
    · exact Or.inr (Or.inr ⟨sd, hs, h1⟩)
  | empty => rw [hc] at h; simp [accepting] at h
  | hdrFromProtoErr => rw [hc] at h; simp [accepting] at h
  | hdrUnexpectedSequencer => rw [hc] at h; simp [accepting] at h
  | ignored => rw [hc] at h; simp [accepting] at h

/-- **Every blob not signed by the proposer changes nothing**, wherever it sits among the blobs of a DA height —
forgeries under the proposer's address included: the node (marks, caches, cursor) and the events
handed to sync are those of the list without it. -/
theorem blob_not_by_proposer_changes_nothing (R : Bytes) (n : RNode) (da : Nat) (bs₁ bs₂ : List (Bytes × Oracle))
    (b : Bytes) (o : Oracle) (evs : List Event) (hnp : ¬ BlobByProposer o R b) (hnc : ¬ BlobCollides o R b) :
    handleBlobs (keyAddress R) n da (bs₁ ++ [(b, o)] ++ bs₂) evs = handleBlobs (keyAddress R) n da (bs₁ ++ bs₂) evs := by
  apply handleBlobs_drop_unaccepted
  cases ha : accepting (classify o (keyAddress R) b) with
  | false => rfl
  | true => rcases accepted_blob_by_proposer_or_collision o R b ha with h | h <;> contradiction
example : handleBlobs proposer {} 7 ([(genuineHeader.encode, forgeO)] ++ [(forgedHeader.encode, forgeO)] ++ []) [] =
    handleBlobs proposer {} 7 ([(genuineHeader.encode, forgeO)] ++ []) [] :=
  handleBlobs_drop_unaccepted _ _ _ _ _ _ _ (by decide +kernel)

/-- a blob that is not accepted changes nothing (the mechanism behind the above) -/
theorem unaccepted_blob_changes_nothing (p : Bytes) (n : RNode) (da : Nat) (bs₁ bs₂ : List (Bytes × Oracle))
    (b : Bytes) (o : Oracle) (evs : List Event) (h : accepting (classify o p b) = false) :
    handleBlobs p n da (bs₁ ++ [(b, o)] ++ bs₂) evs = handleBlobs p n da (bs₁ ++ bs₂) evs :=
  handleBlobs_drop_unaccepted p n da bs₁ bs₂ (b, o) evs h
example : handleBlobs proposer {} 3 ([] ++ [([0xff, 0x01], forgeO)] ++ []) [] = handleBlobs proposer {} 3 ([] ++ []) [] :=
  unaccepted_blob_changes_nothing _ _ _ _ _ _ _ _ (by decide +kernel)

/-- any amount of it, interleaved in any way: the hand-off is that of the accepted blobs alone -/
theorem only_accepted_blobs_matter (p : Bytes) (n : RNode) (da : Nat) (bs : List (Bytes × Oracle)) (evs : List Event) :
    handleBlobs p n da bs evs = handleBlobs p n da (bs.filter fun b => accepting (classify b.2 p b.1)) evs :=
  handleBlobs_filter_accepted p n da bs evs

theorem unverifiable_blob_changes_nothing (p : Bytes) (n : RNode) (da : Nat) (bs₁ bs₂ : List (Bytes × Oracle))
    (b : Bytes) (o : Oracle) (evs : List Event) (h1 : o.hdrSigOk = false) (h2 : o.dataSigOk = false) :
    handleBlobs p n da (bs₁ ++ [(b, o)] ++ bs₂) evs = handleBlobs p n da (bs₁ ++ bs₂) evs :=
  unaccepted_blob_changes_nothing p n da bs₁ bs₂ b o evs (unverifiable_blob_not_accepting o p b h1 h2)

/-- **Junk cannot halt the scan**: whether a DA height is passed, and after how many attempts, depends on the
fetch outcomes and on the NUMBER of blobs only — not on their bytes, the oracle answers, or the node. -/
theorem blob_contents_cannot_stall_the_scan (p p' : Bytes) (n n' : RNode) (blobs blobs' : List (Bytes × Oracle))
    (hl : blobs.length = blobs'.length) (fuel : Nat) (outs : List Fetch) (used : Nat) :
    (processNext p n blobs fuel outs used).2.2 = (processNext p' n' blobs' fuel outs used).2.2 :=
  processNext_verdict_length p p' n n' blobs blobs' hl fuel outs used
example : (processNext proposer {} [([0xff], forgeO)] 10 [.errIds] 0).2.2 = (true, 2) := by decide +kernel

end Spec.C03
