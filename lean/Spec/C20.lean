import Model.Based
import Proofs.C20
import Gen.C20

/-! # C20 — based sequencer: DA-ordered, size-bounded, restart-safe batches

About `Based.getNextBatch` / `Based.restart` (`Model/Based.lean`), the definitions the driver
`drv_C20` executes against the real `sequencers/based` code on every run.

* full strength, for ALL inputs and call sequences: the size bound (`C20_size_bound`,
  `C20_size_bound_run`) and restart-invariance (`C20_restart_after_call`, `C20_restart_invariance`);
* the release-sequence clauses are FALSE of the current code: `C20_exactly_once`,
  `C20_nothing_skipped`, `C20_pushback_first` are refuted by kernel-checked witnesses whose runs are
  also what the real code does today (`Gen.C20`, regenerated on every run);
* what is provable of them: one call conserves the carry-over and consumes DA heights in DA order
  (`C20_call_da_order_partial`, hypothesis: the carry-over is empty), and the carry-over pop never
  drops or reorders (`C20_pop_conserves`). -/
namespace Spec.C20
open Based

/-! ## Size bound — for all inputs, states and call sequences -/

theorem C20_default_limit : Based.defaultMax = Gen.C20.defaultMaxBlobSize := by decide

private theorem assemble_le (max : Nat) (q : List Entry) (drift : Nat) (da : Nat → Fetch) (lastDA fuel next : Nat) :
    bytesOf ((popQueue max q 0 0).taken ++
      (scan drift da max lastDA fuel next (popQueue max q 0 0).size (popQueue max q 0 0).ts).taken) ≤ max := by
  have hp := popQueue_spec max q 0 0
  have hs := scan_spec drift da max lastDA fuel next (popQueue max q 0 0).size (popQueue max q 0 0).ts
  have := hs.2 (hp.2 (Nat.zero_le _))
  rw [bytesOf_append]; omega

private theorem items_ite (l : List Item) (ts : Nat) :
    (if l.isEmpty then Resp.nil else Resp.batch l ts).items = l := by
  cases l <;> simp [Resp.items]

/-- **Size bound.** Whatever the state (reachable or not), the DA answers, the limit (also one
smaller than every tx; `0` means the default) and the echoed `LastBatchData`: a released batch
never exceeds the requested size. -/
theorem C20_size_bound (cfg : Cfg) (da : Nat → Fetch) (s : St) (r : Req) :
    bytesOf (getNextBatch cfg da s r).resp.items ≤ effMax r.max := by
  unfold getNextBatch
  split
  · simp [Resp.items, bytesOf]
  · split
    · split
      · simp [Resp.items, bytesOf]
      · simp only [items_ite]; exact assemble_le _ _ _ _ _ _ _
    · simp only [items_ite]; exact assemble_le _ _ _ _ _ _ _

/-- a history: calls (each with its own DA answers, limit, echo, chain id) and restarts, in any order -/
inductive Ev
  | call (da : Nat → Fetch) (r : Req)
  | restart

def run (cfg : Cfg) : St → List Ev → List (Req × Resp)
  | _, [] => []
  | s, .restart :: es => run cfg (restart s) es
  | s, .call da r :: es => (r, (getNextBatch cfg da s r).resp) :: run cfg (getNextBatch cfg da s r).st es

/-- the size bound along every history, with restarts anywhere -/
theorem C20_size_bound_run (cfg : Cfg) (s : St) (evs : List Ev) :
    ∀ p ∈ run cfg s evs, bytesOf p.2.items ≤ effMax p.1.max := by
  induction evs generalizing s with
  | nil => simp [run]
  | cons e es ih =>
    cases e with
    | restart => simpa [run] using ih (restart s)
    | call da r =>
      intro p hp
      simp only [run, List.mem_cons] at hp
      rcases hp with rfl | hp
      · exact C20_size_bound cfg da s r
      · exact ih _ p hp

/-- non-vacuity: a batch can fill the limit exactly (through the carry-over) -/
example : bytesOf (getNextBatch ⟨1, 0⟩ (fun _ => .empty)
    { queue := [⟨[⟨[1, 2], [7]⟩, ⟨[3], [8]⟩], 5⟩] } { max := 3 }).resp.items = 3 := by decide

/-! ## Restart: the carry-over queue and the scan position survive -/

/-- **Persistence round trip.** After every call that was not rejected for its chain id, a new
sequencer object built from the datastore has exactly the state of the running one
(`restart ∘ step = step`): queue and scan position are both persisted before the call returns. -/
theorem C20_restart_after_call (cfg : Cfg) (da : Nat → Fetch) (s : St) (r : Req) (h : r.idOk = true) :
    restart (getNextBatch cfg da s r).st = (getNextBatch cfg da s r).st := by
  unfold getNextBatch
  simp only [h, Bool.not_true, Bool.false_eq_true, if_false]
  split
  · split <;> simp [restart]
  · simp [restart]

theorem C20_restart_durable (cfg : Cfg) (da : Nat → Fetch) (s : St) (r : Req) (hs : restart s = s) :
    restart (getNextBatch cfg da s r).st = (getNextBatch cfg da s r).st := by
  cases h : r.idOk with
  | true => exact C20_restart_after_call cfg da s r h
  | false => simp [getNextBatch, h, hs]

def isCall : Ev → Bool
  | .call _ _ => true
  | .restart => false

/-- **Restart-invariance.** From a state that is what its datastore says (in particular the
initial state), a history with restarts between any two calls yields the same responses as the
same history without the restarts. -/
theorem C20_restart_invariance (cfg : Cfg) (s : St) (hs : restart s = s) (evs : List Ev) :
    run cfg s evs = run cfg s (evs.filter isCall) := by
  induction evs generalizing s with
  | nil => rfl
  | cons e es ih =>
    cases e with
    | restart => simp only [run, List.filter, isCall, hs]; exact ih s hs
    | call da r =>
      simp only [run, List.filter, isCall]
      rw [ih _ (C20_restart_durable cfg da s r hs)]

theorem C20_init_durable : restart ({} : St) = {} := rfl

/-- non-vacuity: a state with a non-empty carry-over and a scan position, restarted -/
example : (restart (getNextBatch ⟨1, 0⟩ (fun _ => .ok [⟨[1, 2], [7]⟩, ⟨[3, 4], [8]⟩] 9) {} { max := 3 }).st).queue
    = [⟨[⟨[3, 4], [8]⟩], 9⟩] := by decide

/-! ## DA order / exactly once / nothing dropped — false of the current code -/

/-- the block manager as caller (block/manager.go:546-581): echoes the ids of the last batch -/
def play (cfg : Cfg) : St → List Bytes → List (DA × Nat) → St × List (List Item)
  | s, _, [] => (s, [])
  | s, last, (d, max) :: cs =>
    let o := getNextBatch cfg d.fetch s { max := max, last := last }
    let r := play cfg o.st (match o.resp with | .batch items _ => items.map (·.id) | _ => last) cs
    (r.1, o.resp.items :: r.2)

def idsOf (bs : List (List Item)) : List (List Bytes) := bs.map fun b => b.map (·.id)

/-- full statement: on a fixed DA, no DA tx is released twice -/
def C20_exactly_once : Prop :=
  ∀ (cfg : Cfg) (d : DA) (maxs : List Nat),
    ((play cfg {} [] (maxs.map fun m => (d, m))).2.flatten.map (·.id)).Nodup

def w1DA : DA := { head := 50, blobs := [(1, [[0xaa, 1], [0xaa, 2], [0xaa, 3]]), (2, [[0xbb, 1]])] }

/-- the witness history is what the real code does today -/
theorem C20_w1_is_real : idsOf (play ⟨1, 2⟩ {} [] [(w1DA, 5), (w1DA, 5), (w1DA, 5)]).2 = Gen.C20.w1Ids := by
  decide +kernel

/-- **Defect.** After a push-back at height `h` the persisted scan position is `h` again and the
echoed `LastBatchData` (last id at height `h`, not `> h`) does not move it: height `h` is scanned
and released again. -/
theorem C20_exactly_once_fails : ¬ C20_exactly_once := by
  intro h
  have := h ⟨1, 2⟩ w1DA [5, 5]
  revert this
  decide +kernel

/-- and the scan position never leaves that height: height 2 is never reached, however many calls -/
theorem C20_w1_stuck : (play ⟨1, 2⟩ {} [] (List.replicate 12 (w1DA, 5))).1.scanP = some 1 ∧
    ∀ b ∈ (play ⟨1, 2⟩ {} [] (List.replicate 12 (w1DA, 5))).2, ∀ it ∈ b, splitHeight it.id = some 1 := by
  decide +kernel

def DA.extendedBy (d d' : DA) : Prop :=
  d.head ≤ d'.head ∧ (∀ h, h < d.head → d'.txsAt h = d.txsAt h) ∧
    d.errIds = [] ∧ d.errGet = [] ∧ d'.errIds = [] ∧ d'.errGet = []

/-- full statement: when the DA grows, every tx at a height below the scan position has been
released or sits in the carry-over -/
def C20_nothing_skipped : Prop :=
  ∀ (cfg : Cfg) (d d' : DA) (m k k' : Nat), DA.extendedBy d d' →
    let r := play cfg {} [] (List.replicate k (d, m) ++ List.replicate k' (d', m))
    ∀ h, cfg.daStart ≤ h → h < persistedPos cfg r.1 → ∀ it ∈ mkItems h 0 (d'.txsAt h),
      it ∈ r.2.flatten ∨ it ∈ flat r.1.queue

def w2DA : DA := { head := 2, blobs := [(1, [[1]])] }
def w2DA' : DA := { head := 10, blobs := [(1, [[1]]), (2, [[2]])] }

theorem C20_w2_is_real : idsOf (play ⟨1, 1⟩ {} [] [(w2DA, 0), (w2DA', 0), (w2DA', 0)]).2 = Gen.C20.w2Ids := by
  decide +kernel

/-- **Defect.** A height "from the future" is treated like an empty height: the scan position moves
past the DA head, and what later appears at those heights is never scanned. -/
theorem C20_nothing_skipped_fails : ¬ C20_nothing_skipped := by
  intro h
  have := h ⟨1, 1⟩ w2DA w2DA' 0 1 2 (by unfold DA.extendedBy; decide) 2 (by decide) (by decide +kernel) ⟨[2], mkId 2 0⟩ (by decide +kernel)
  revert this
  decide +kernel

/-- does every call that starts with a non-empty carry-over and releases something release the
carry-over head first? -/
def pushbackFirst (cfg : Cfg) : St → List Bytes → List (DA × Nat) → Bool
  | _, _, [] => true
  | s, last, (d, max) :: cs =>
    let o := getNextBatch cfg d.fetch s { max := max, last := last }
    (match (flat s.queue).head?, o.resp.items.head? with
      | some y, some x => decide (x = y)
      | _, _ => true) &&
    pushbackFirst cfg o.st (match o.resp with | .batch items _ => items.map (·.id) | _ => last) cs

/-- full statement: a tx that did not fit comes first in the next batch -/
def C20_pushback_first : Prop :=
  ∀ (cfg : Cfg) (d : DA) (maxs : List Nat), pushbackFirst cfg {} [] (maxs.map fun m => (d, m)) = true

def w3DA : DA := { head := 20, blobs := [(1, [[1], [9, 9, 9, 9, 9, 9], [3]]), (2, [[4]])] }

theorem C20_w3_is_real : idsOf (play ⟨1, 1⟩ {} [] [(w3DA, 4), (w3DA, 4), (w3DA, 4)]).2 = Gen.C20.w3Ids := by
  decide +kernel

/-- **Defect.** A tx larger than the limit stays at the head of the carry-over for ever while the
sequencer keeps releasing other txs (on this tree: the already released txs before it, again). -/
theorem C20_pushback_first_fails : ¬ C20_pushback_first := by
  intro h
  have := h ⟨1, 1⟩ w3DA [4, 4]
  revert this
  decide +kernel

/-! ## What is provable of the release-sequence clauses -/

/-- **The carry-over pop never drops or reorders**: released-from-queue ++ what stays queued is the
queue, for every limit. -/
theorem C20_pop_conserves (max : Nat) (q : List Entry) :
    (popQueue max q 0 0).taken ++ flat (popQueue max q 0 0).queue = flat q :=
  popQueue_flat max q 0 0

/-- **One call, DA order (partial).** Hypothesis: the carry-over is empty and the caller's echo
does not lie ahead of the scan position (here: no echo). Then the call consumes `n` consecutive DA
heights from the scan position, and `released ++ pushed-back` is exactly their content by height
and position: nothing dropped, nothing reordered, and what did not fit is queued in order. The new
scan position is `pos + n` — except after a push-back, where it is `pos + n - 1` (the defect:
the last consumed height will be consumed again). -/
theorem C20_call_da_order_partial (cfg : Cfg) (da : Nat → Fetch) (s : St) (max : Nat)
    (hq : s.queue = []) :
    let o := getNextBatch cfg da s { max := max }
    ∃ n, o.resp.items ++ flat o.st.queue = daItems da (persistedPos cfg s) n ∧
      ((flat o.st.queue = [] ∧ o.st.queue = []) → o.st.scanP = some (persistedPos cfg s + n)) ∧
      (o.st.queue ≠ [] → o.st.scanP.map (· + 1) = some (persistedPos cfg s + n)) := by
  simp only [getNextBatch, hq, Bool.not_true, Bool.false_eq_true, if_false, List.getLast?_nil, popQueue,
    List.nil_append, items_ite]
  obtain ⟨n, h1, h2, h3⟩ := scan_da_order cfg.drift da (effMax max) (persistedPos cfg s) (cfg.drift + 2) (persistedPos cfg s) 0 0
  refine ⟨n, ?_, ?_, ?_⟩
  · rw [← h1]
    cases hpd : (scan cfg.drift da (effMax max) (persistedPos cfg s) (cfg.drift + 2) (persistedPos cfg s) 0 0).pushed <;>
      simp [pushQ, pushedItems, flat]
  · intro hq2
    cases hpd : (scan cfg.drift da (effMax max) (persistedPos cfg s) (cfg.drift + 2) (persistedPos cfg s) 0 0).pushed with
    | none => simp [h2 hpd]
    | some e => simp [pushQ, hpd] at hq2
  · intro hq2
    cases hpd : (scan cfg.drift da (effMax max) (persistedPos cfg s) (cfg.drift + 2) (persistedPos cfg s) 0 0).pushed with
    | none => simp [pushQ, hpd] at hq2
    | some e => simp [h3 (by simp [hpd])]

/-! ### several calls without push-back -/

/-- calls of a caller that sends no `LastBatchData`, on a fixed DA -/
def playNoEcho (cfg : Cfg) (da : Nat → Fetch) : St → List Nat → St × List Item
  | s, [] => (s, [])
  | s, m :: ms =>
    ((playNoEcho cfg da (getNextBatch cfg da s { max := m }).st ms).1,
     (getNextBatch cfg da s { max := m }).resp.items ++ (playNoEcho cfg da (getNextBatch cfg da s { max := m }).st ms).2)

/-- the excluding hypothesis: no call of the history leaves anything in the carry-over -/
def neverPushesBack (cfg : Cfg) (da : Nat → Fetch) : St → List Nat → Prop
  | _, [] => True
  | s, m :: ms => (getNextBatch cfg da s { max := m }).st.queue = [] ∧
      neverPushesBack cfg da (getNextBatch cfg da s { max := m }).st ms

/-- **DA order, exactly once, nothing dropped (partial).** On a fixed DA, for any number of calls
with any limits, *as long as no call pushes anything back*: the concatenation of all released
batches is exactly the content of the `n` consecutive heights from the first scan position, by
height and position, each tx once; and the scan position has advanced by exactly `n`. -/
theorem C20_da_order_partial (cfg : Cfg) (da : Nat → Fetch) (s : St) (ms : List Nat)
    (hq : s.queue = []) (hn : neverPushesBack cfg da s ms) :
    ∃ n, (playNoEcho cfg da s ms).2 = daItems da (persistedPos cfg s) n ∧
      persistedPos cfg (playNoEcho cfg da s ms).1 = persistedPos cfg s + n := by
  induction ms generalizing s with
  | nil => exact ⟨0, by simp [playNoEcho, daItems]⟩
  | cons m ms ih =>
    obtain ⟨n1, h1, h2, _⟩ := C20_call_da_order_partial cfg da s m hq
    have hq1 := hn.1
    have hp1 : persistedPos cfg (getNextBatch cfg da s { max := m }).st = persistedPos cfg s + n1 := by
      have := h2 ⟨by simp [hq1, flat], hq1⟩
      have hle := daStart_le_pos cfg s
      exact pos_of_scanP cfg _ _ this (by omega)
    obtain ⟨n2, g1, g2⟩ := ih _ hq1 hn.2
    refine ⟨n1 + n2, ?_, ?_⟩
    · simp only [playNoEcho]
      rw [daItems_add, g1, hp1, ← h1, hq1]
      simp [flat]
    · simp only [playNoEcho]
      rw [g2, hp1]; omega

/-- an echo that is not ahead of the scan position (what `block.Manager` sends) changes nothing -/
theorem C20_echo_irrelevant (cfg : Cfg) (da : Nat → Fetch) (s : St) (r : Req) (id : Bytes) (e : Nat)
    (h1 : r.last.getLast? = some id) (h2 : splitHeight id = some e) (h3 : e ≤ persistedPos cfg s) :
    getNextBatch cfg da s r = getNextBatch cfg da s { r with last := [] } := by
  have h4 : ¬ e > persistedPos cfg s := by omega
  simp [getNextBatch, h1, h2, h4]

/-- non-vacuity: two calls on `w1DA` with drift 0 and the default limit never push back -/
example : neverPushesBack ⟨1, 0⟩ w1DA.fetch {} [0, 0] ∧
    (playNoEcho ⟨1, 0⟩ w1DA.fetch {} [0, 0]).2 = daItems w1DA.fetch 1 2 := by
  unfold neverPushesBack neverPushesBack neverPushesBack
  decide +kernel

/-- non-vacuity: a call that releases a prefix, pushes back the rest and leaves the position behind -/
example : let o := getNextBatch ⟨1, 2⟩ w1DA.fetch {} { max := 5 }
    o.resp.items ++ flat o.st.queue = daItems w1DA.fetch 1 1 ∧ o.st.queue ≠ [] ∧ o.st.scanP = some 1 := by
  decide +kernel

/-- non-vacuity: a call in which everything fits moves the position past what it consumed -/
example : let o := getNextBatch ⟨1, 2⟩ w1DA.fetch {} { max := 0 }
    o.resp.items = daItems w1DA.fetch 1 3 ∧ o.st.queue = [] ∧ o.st.scanP = some 4 := by
  decide +kernel

end Spec.C20
