import Model.Based
import Proofs.C20
import Proofs.C20Hist
import Proofs.C20DA
import Proofs.C20Crash
import Gen.C20

/-! # C20 — based sequencer: DA-ordered, size-bounded, restart-safe batches

About `Based.getNextBatch` / `Based.restart` (`Model/Based.lean`), the definitions the driver
`drv_C20` executes against the real `sequencers/based` code on every run.

All clauses hold at full strength of the repaired code (sequencer.go: the scan is not entered while
un-popped carry-over remains; a height the DA has not reached stops the scan like a retrieval error;
a push-back consumes its height):

* size bound, for ALL inputs, states and call sequences (`C20_size_bound`, `C20_size_bound_run`);
* restart-invariance (`C20_restart_after_call`, `C20_restart_invariance`, `C20_history_restart_invariance`);
* DA order + exactly once + nothing dropped, for EVERY history of calls with any limits, any
  retrieval error / not-yet-reached pattern per call, and restarts anywhere: everything released so
  far followed by the carry-over IS the DA stream from the start height up to the scan position
  (`C20_da_order`; corollaries `C20_released_is_prefix`, `C20_exactly_once`, `C20_nothing_skipped`);
* errors and heights from the future: the position never passes such a height
  (`C20_failed_height_not_passed`, `C20_failed_height_not_passed_history`);
* what did not fit comes first in the next batch (`C20_pushback_first_call`, `C20_pushback_first`),
  and a limit smaller than the carry-over head releases nothing and stays put;
* nothing is stuck (`C20_drains`): later heights are reached and every tx is released.

C20 quantifies over restarts BETWEEN ANY TWO CALLS; for those every clause above is proved in full.
Crashes INSIDE a call (after k ≥ 1 of its durable writes) are BEYOND the property's quantifier; they
are nevertheless part of the model (last section) so that the correspondence covers every crash
point: `C20_crash_inside_call_full` is a statement the property does not make, its failure is
documented by theorems (`C20_crash_inside_call_fails`, `C20_crash_pop_saved_loses`,
`C20_crash_torn_pushback_duplicates`) and is NOT a finding; what does hold there is proved for all
histories (`C20_crash_accounting`, `C20_crash_loses_at_most_the_undelivered_answer`,
`C20_crash_exactly_once`); `C20_crash_before_first_write` links the two: the crash point `k = 0` IS
a restart between two calls.

The inputs that refuted the clauses before the repair are kept as kernel-checked
"now behaves" theorems; their runs are also what the real code does (`Gen.C20`). -/
namespace Spec.C20
open Based

/-! ## Size bound — for all inputs, states and call sequences -/

theorem C20_default_limit : Based.defaultMax = Gen.C20.defaultMaxBlobSize := by decide

private theorem assemble_le (max : Nat) (q : List Entry) (drift : Nat) (da : Nat → Fetch) (lastDA fuel next : Nat) :
    bytesOf ((popQueue max q 0 0).taken ++
      (scanQ (popQueue max q 0 0).queue drift da max lastDA fuel next (popQueue max q 0 0).size (popQueue max q 0 0).ts).taken) ≤ max := by
  have hp := popQueue_spec max q 0 0
  have hs := scanQ_spec (popQueue max q 0 0).queue drift da max lastDA fuel next (popQueue max q 0 0).size (popQueue max q 0 0).ts
  have := hs.2 (hp.2 (Nat.zero_le _))
  rw [bytesOf_append]; omega

/-- **Size bound.** Whatever the state (reachable or not), the DA answers, the limit (also one
smaller than every tx; `0` means the default) and the echoed `LastBatchData`: a released batch
never exceeds the requested size. -/
theorem C20_size_bound (cfg : Cfg) (da : Nat → Fetch) (s : St) (r : Req) :
    bytesOf (getNextBatch cfg da s r).resp.items ≤ effMax r.max := by
  unfold getNextBatch
  split
  · simp [Resp.items, bytesOf]
  · split
    · split
      · simp [Resp.items, bytesOf]
      · simp only [items_ite]; exact assemble_le _ _ _ _ _ _ _
    · simp only [items_ite]; exact assemble_le _ _ _ _ _ _ _

/-- a history: calls (each with its own DA answers, limit, echo, chain id) and restarts, in any order -/
inductive Ev
  | call (da : Nat → Fetch) (r : Req)
  | restart

def run (cfg : Cfg) : St → List Ev → List (Req × Resp)
  | _, [] => []
  | s, .restart :: es => run cfg (restart s) es
  | s, .call da r :: es => (r, (getNextBatch cfg da s r).resp) :: run cfg (getNextBatch cfg da s r).st es

/-- the size bound along every history, with restarts anywhere -/
theorem C20_size_bound_run (cfg : Cfg) (s : St) (evs : List Ev) :
    ∀ p ∈ run cfg s evs, bytesOf p.2.items ≤ effMax p.1.max := by
  induction evs generalizing s with
  | nil => simp [run]
  | cons e es ih =>
    cases e with
    | restart => simpa [run] using ih (restart s)
    | call da r =>
      intro p hp
      simp only [run, List.mem_cons] at hp
      rcases hp with rfl | hp
      · exact C20_size_bound cfg da s r
      · exact ih _ p hp

/-- non-vacuity: a batch can fill the limit exactly (through the carry-over) -/
example : bytesOf (getNextBatch ⟨1, 0⟩ (fun _ => .empty)
    { queue := [⟨[⟨[1, 2], [7]⟩, ⟨[3], [8]⟩], 5⟩] } { max := 3 }).resp.items = 3 := by decide

/-! ## Restart: the carry-over queue and the scan position survive -/

/-- **Persistence round trip.** After every call that was not rejected for its chain id, a new
sequencer object built from the datastore has exactly the state of the running one
(`restart ∘ step = step`): queue and scan position are both persisted before the call returns. -/
theorem C20_restart_after_call (cfg : Cfg) (da : Nat → Fetch) (s : St) (r : Req) (h : r.idOk = true) :
    restart (getNextBatch cfg da s r).st = (getNextBatch cfg da s r).st :=
  restart_gnb cfg da s r h

theorem C20_restart_durable (cfg : Cfg) (da : Nat → Fetch) (s : St) (r : Req) (hs : restart s = s) :
    restart (getNextBatch cfg da s r).st = (getNextBatch cfg da s r).st := by
  cases h : r.idOk with
  | true => exact C20_restart_after_call cfg da s r h
  | false => simp [getNextBatch, h, hs]

def isCall : Ev → Bool
  | .call _ _ => true
  | .restart => false

/-- **Restart-invariance.** From a state that is what its datastore says (in particular the
initial state), a history with restarts between any two calls yields the same responses as the
same history without the restarts — for every caller (any echo, any chain id). -/
theorem C20_restart_invariance (cfg : Cfg) (s : St) (hs : restart s = s) (evs : List Ev) :
    run cfg s evs = run cfg s (evs.filter isCall) := by
  induction evs generalizing s with
  | nil => rfl
  | cons e es ih =>
    cases e with
    | restart => simp only [run, List.filter, isCall, hs]; exact ih s hs
    | call da r =>
      simp only [run, List.filter, isCall]
      rw [ih _ (C20_restart_durable cfg da s r hs)]

theorem C20_init_durable : restart ({} : St) = {} := rfl

/-- the same for the histories of the block manager (`playH`: the echo is what the previous
responses were): batches, final state and final echo do not depend on the restarts -/
theorem C20_history_restart_invariance (cfg : Cfg) (evs : List Step) :
    playH cfg {} [] evs = playH cfg {} [] (evs.filter Step.isCall) :=
  playH_restart_invariance cfg {} [] rfl evs

/-- non-vacuity: a state with a non-empty carry-over and a scan position, restarted -/
example : (restart (getNextBatch ⟨1, 0⟩ (fun _ => .ok [⟨[1, 2], [7]⟩, ⟨[3, 4], [8]⟩] 9) {} { max := 3 }).st).queue
    = [⟨[⟨[3, 4], [8]⟩], 9⟩] := by decide

/-! ## DA order, exactly once, nothing dropped — every history

Vocabulary (`Proofs/C20.lean`, `Proofs/C20Hist.lean`): `Content` = what the DA layer holds per
height (immutable); `stream c lo n` = the txs of the `n` heights from `lo`, by height then position;
`Answers c da` = one call's view `da` of the DA layer is consistent with `c` — every height answers
with its content, as empty if it has none, with a retrieval error, or as not yet reached
(`AllAnswer`: for every call of the history, each call with its own view: this is "any retrieval
error pattern"); `IdsNotAhead c` = DA ids carry their height (`coreda.SplitID`);
`playH cfg s last evs` = the history `evs` of calls `(view, limit)` and restarts as the block
manager drives it (it echoes the ids of the last batch it received). -/

/-- everything the history released, in order, from the initial state -/
def released (cfg : Cfg) (evs : List Step) : List Item := (playH cfg {} [] evs).batches.flatten

/-- the state after the history -/
def finalSt (cfg : Cfg) (evs : List Step) : St := (playH cfg {} [] evs).st

/-- **DA order, exactly once, nothing dropped.** For every DA content, every history of calls with
any limits (also smaller than a tx) and any pattern of retrieval errors and not-yet-reached heights
per call, with restarts between any two calls: everything released so far, followed by the
carry-over queue, is exactly the DA stream of the `n` heights from the start height, by height then
position — and the persisted scan position is exactly past those `n` heights. So the released txs
are a prefix of the DA stream (order, no duplicate, no gap), and the txs of the heights consumed
that were not released yet are in the carry-over, in order. -/
theorem C20_da_order (cfg : Cfg) (c : Content) (hc : IdsNotAhead c) (evs : List Step) (hA : AllAnswer c evs) :
    ∃ n, released cfg evs ++ flat (finalSt cfg evs).queue = stream c cfg.daStart n ∧
      persistedPos cfg (finalSt cfg evs) = cfg.daStart + n := by
  have h := (playH_inv c cfg hc evs hA {} [] [] (inv_init c cfg)).str
  simpa [released, finalSt] using h

/-- the released sequence is a prefix of the DA stream -/
theorem C20_released_is_prefix (cfg : Cfg) (c : Content) (hc : IdsNotAhead c) (evs : List Step) (hA : AllAnswer c evs) :
    ∃ n, released cfg evs <+: stream c cfg.daStart n := by
  obtain ⟨n, h, _⟩ := C20_da_order cfg c hc evs hA
  exact ⟨n, by rw [← h]; exact List.prefix_append _ _⟩

/-- **Exactly once**, in terms of ids: if the DA layer gives distinct ids to its blobs, no id is
released twice (whatever the limits, error patterns and restarts). -/
theorem C20_exactly_once (cfg : Cfg) (c : Content) (hc : IdsNotAhead c) (evs : List Step) (hA : AllAnswer c evs)
    (hd : ∀ n, ((stream c cfg.daStart n).map (·.id)).Nodup) :
    ((released cfg evs).map (·.id)).Nodup := by
  obtain ⟨n, h⟩ := C20_released_is_prefix cfg c hc evs hA
  exact List.Nodup.sublist (h.map _).sublist (hd n)

/-- **Nothing skipped, nothing dropped**: every tx of every height below the scan position has been
released or sits in the (persisted) carry-over. -/
theorem C20_nothing_skipped (cfg : Cfg) (c : Content) (hc : IdsNotAhead c) (evs : List Step) (hA : AllAnswer c evs)
    (h : Nat) (h1 : cfg.daStart ≤ h) (h2 : h < persistedPos cfg (finalSt cfg evs)) (it : Item) (hit : it ∈ c h) :
    it ∈ released cfg evs ∨ it ∈ flat (finalSt cfg evs).queue := by
  obtain ⟨n, g1, g2⟩ := C20_da_order cfg c hc evs hA
  have : it ∈ stream c cfg.daStart n := (mem_stream ..).mpr ⟨h, h1, by omega, hit⟩
  rw [← g1] at this
  simpa using this

/-- and the carry-over is what the datastore holds: nothing is only in memory -/
theorem C20_carry_over_persisted (cfg : Cfg) (c : Content) (hc : IdsNotAhead c) (evs : List Step) (hA : AllAnswer c evs) :
    restart (finalSt cfg evs) = finalSt cfg evs :=
  (playH_inv c cfg hc evs hA {} [] [] (inv_init c cfg)).dur

/-- **One call**, from any state (reachable or not), with an echo that is not ahead of the scan
position: `released ++ carry-over after` = `carry-over before ++` the content of the `n` heights
consumed from the scan position, and the new position is exactly past them. -/
theorem C20_call_da_order (cfg : Cfg) (c : Content) (da : Nat → Fetch) (hA : Answers c da) (s : St) (r : Req)
    (hid : r.idOk = true) (he : EchoOk cfg s r.last) :
    ∃ n, (getNextBatch cfg da s r).resp.items ++ flat (getNextBatch cfg da s r).st.queue
          = flat s.queue ++ stream c (persistedPos cfg s) n ∧
      persistedPos cfg (getNextBatch cfg da s r).st = persistedPos cfg s + n := by
  rw [gnb_norm cfg da s r hid he]
  exact call_stream c cfg da hA s r.max

/-- **The carry-over pop never drops or reorders**: released-from-queue ++ what stays queued is the
queue, for every limit. -/
theorem C20_pop_conserves (max : Nat) (q : List Entry) :
    (popQueue max q 0 0).taken ++ flat (popQueue max q 0 0).queue = flat q :=
  popQueue_flat max q 0 0

/-- an echo that is not ahead of the scan position (what `block.Manager` sends) changes nothing -/
theorem C20_echo_irrelevant (cfg : Cfg) (da : Nat → Fetch) (s : St) (r : Req) (hid : r.idOk = true)
    (he : EchoOk cfg s r.last) :
    getNextBatch cfg da s r = getNextBatch cfg da s { max := r.max } :=
  gnb_norm cfg da s r hid he

/-- the state after a history of arbitrary calls and restarts -/
def runSt (cfg : Cfg) : St → List Ev → St
  | s, [] => s
  | s, .restart :: es => runSt cfg (restart s) es
  | s, .call da r :: es => runSt cfg (getNextBatch cfg da s r).st es

/-- **The carry-over holds one entry at most** (for every caller): the DA layer is only scanned,
and a push-back only made, when the pop has emptied the queue. -/
theorem C20_carry_over_single_entry (cfg : Cfg) (evs : List Ev) :
    (runSt cfg {} evs).queue.length ≤ 1 := by
  suffices h : ∀ s : St, restart s = s → s.queue.length ≤ 1 → (runSt cfg s evs).queue.length ≤ 1 from
    h {} rfl (by simp)
  induction evs with
  | nil => intro s _ h; exact h
  | cons e es ih =>
    intro s hs h
    cases e with
    | restart => simp only [runSt, hs]; exact ih s hs h
    | call da r => exact ih _ (C20_restart_durable cfg da s r hs) (gnb_queue_le_one cfg da s r h)

/-! ## Retrieval errors and heights from the future -/

/-- **Errors / future heights: position not advanced past them.** A call never moves the scan
position past a height whose retrieval failed in that call or which the DA layer had not reached;
with `C20_da_order` (everything below the position is released or queued) nothing is lost: the
height is retried by a later call. -/
theorem C20_failed_height_not_passed (cfg : Cfg) (da : Nat → Fetch) (s : St) (r : Req)
    (hid : r.idOk = true) (he : EchoOk cfg s r.last) (h : Nat)
    (hb : da h = .error ∨ da h = .future) (hn : persistedPos cfg s ≤ h) :
    persistedPos cfg (getNextBatch cfg da s r).st ≤ h := by
  rw [gnb_norm cfg da s r hid he]
  exact call_stops_at cfg da s r.max h hb hn

/-- along a history: while a height keeps failing (or is not reached), the position stays at or
below it, however many calls are made -/
theorem C20_failed_height_not_passed_history (cfg : Cfg) (c : Content) (hc : IdsNotAhead c) (evs : List Step)
    (hA : AllAnswer c evs) (h : Nat) (hF : AllFailAt h evs) (hs : cfg.daStart ≤ h) :
    persistedPos cfg (finalSt cfg evs) ≤ h :=
  playH_stops_at c cfg hc evs hA h hF {} [] [] (inv_init c cfg) (by simpa [persistedPos] using hs)

/-! ## What did not fit comes first in the next batch -/

/-- **Push-back first, one call** (any state; echo not ahead). Let `y` be the head of the
carry-over. If `y` fits the limit, the batch starts with `y`. If the limit is smaller than `y`,
the call releases nothing and stays put: nil response, carry-over content and scan position
unchanged — so `y` is still the head for the next call. -/
theorem C20_pushback_first_call (cfg : Cfg) (da : Nat → Fetch) (s : St) (r : Req)
    (hid : r.idOk = true) (he : EchoOk cfg s r.last) (y : Item) (ys : List Item) (hq : flat s.queue = y :: ys) :
    (y.tx.length ≤ effMax r.max → ∃ rest, (getNextBatch cfg da s r).resp.items = y :: rest) ∧
    (effMax r.max < y.tx.length → (getNextBatch cfg da s r).resp = .nil ∧
      flat (getNextBatch cfg da s r).st.queue = flat s.queue ∧
      persistedPos cfg (getNextBatch cfg da s r).st = persistedPos cfg s) := by
  rw [gnb_norm cfg da s r hid he]
  exact call_head cfg da s r.max y ys hq

/-- **Push-back first, every history.** "Comes first in the next batch" means: if after a history
`evs₁` the carry-over has head `y`, then whatever follows (`evs₂`: any limits, DA views, restarts),
the first tx released afterwards — the first tx of the next non-empty batch — is `y` (or nothing is
released at all: every limit was smaller than `y`). -/
theorem C20_pushback_first (cfg : Cfg) (c : Content) (hc : IdsNotAhead c) (evs₁ evs₂ : List Step)
    (hA₁ : AllAnswer c evs₁) (hA₂ : AllAnswer c evs₂) (y : Item) (ys : List Item)
    (hq : flat (finalSt cfg evs₁).queue = y :: ys) :
    firstReleased (playH cfg (playH cfg {} [] evs₁).st (playH cfg {} [] evs₁).last evs₂).batches = none ∨
    firstReleased (playH cfg (playH cfg {} [] evs₁).st (playH cfg {} [] evs₁).last evs₂).batches = some y :=
  playH_first c cfg hc evs₂ hA₂ _ _ _ (playH_inv c cfg hc evs₁ hA₁ {} [] [] (inv_init c cfg)) y ys hq

/-! ## Nothing is stuck -/

/-- **Liveness.** After any history `evs₁`, let `evs₂` be calls (and restarts) in which the heights
below `hi` answer (no error, reached) and whose limits admit every tx of those heights
(`AllDrain`). If `evs₂` has at least (number of txs of the heights below `hi`) + (number of those
heights) calls, then all txs of all heights below `hi` have been released (in DA order, by
`C20_da_order`): the scan position does not stay at a height, later heights are reached. -/
theorem C20_drains (cfg : Cfg) (c : Content) (hc : IdsNotAhead c) (hi : Nat) (evs₁ evs₂ : List Step)
    (hA : AllAnswer c evs₁) (hD : AllDrain c cfg hi evs₂)
    (hk : (stream c cfg.daStart (hi - cfg.daStart)).length + (hi - cfg.daStart) ≤ calls evs₂) :
    stream c cfg.daStart (hi - cfg.daStart) <+: released cfg (evs₁ ++ evs₂) := by
  have h1 := playH_inv c cfg hc evs₁ hA {} [] [] (inv_init c cfg)
  have h2 := playH_inv c cfg hc evs₂ (allDrain_answer c cfg hi evs₂ hD) _ _ _ h1
  have ht := playH_todo c cfg hc hi evs₂ hD _ _ _ h1
  have h0 : todo c cfg hi (playH cfg (playH cfg {} [] evs₁).st (playH cfg {} [] evs₁).last evs₂).st
      ([] ++ (playH cfg {} [] evs₁).batches.flatten ++
        (playH cfg (playH cfg {} [] evs₁).st (playH cfg {} [] evs₁).last evs₂).batches.flatten) = 0 := by
    rcases ht with ht | ht
    · have hb : todo c cfg hi (playH cfg {} [] evs₁).st ([] ++ (playH cfg {} [] evs₁).batches.flatten)
          ≤ (hi - cfg.daStart) + (stream c cfg.daStart (hi - cfg.daStart)).length := by
        unfold todo
        have := daStart_le_pos cfg (playH cfg {} [] evs₁).st
        omega
      omega
    · exact ht
  have := todo_zero h2 hi h0
  simpa [released, playH_append] using this

/-! ## The scripted DA layer of the correspondence stream satisfies the hypotheses -/

/-- calls on views of a scripted DA -/
def viewSteps (cs : List (DA × Nat)) : List Step := cs.map fun p => .call p.1.fetch p.2

theorem allAnswer_views (d : DA) (cs : List (DA × Nat)) (hs : ∀ p ∈ cs, p.1.sees d) :
    AllAnswer d.content (viewSteps cs) := by
  induction cs with
  | nil => trivial
  | cons p cs ih =>
    exact ⟨DA.answers p.1 d (hs p (by simp)), ih fun q hq => hs q (by simp [hq])⟩

/-- the main theorem instantiated with the DA the driver executes and the harness implements: a DA
`d` whose head grows and whose per-height retrieval faults are set and cleared between the calls
(`p.1.sees d`: the call sees a lower head and any faults) -/
theorem C20_da_order_scripted (cfg : Cfg) (d : DA) (cs : List (DA × Nat)) (hs : ∀ p ∈ cs, p.1.sees d) :
    ∃ n, released cfg (viewSteps cs) ++ flat (finalSt cfg (viewSteps cs)).queue = stream d.content cfg.daStart n ∧
      persistedPos cfg (finalSt cfg (viewSteps cs)) = cfg.daStart + n :=
  C20_da_order cfg d.content (DA.idsNotAhead d) _ (allAnswer_views d cs hs)

/-! ## The inputs that refuted the clauses before the repair, now -/

/-- the block manager on a scripted DA: one `(view, limit)` per call -/
def play (cfg : Cfg) (cs : List (DA × Nat)) : Played := playH cfg {} [] (viewSteps cs)

def idsOf (bs : List (List Item)) : List (List Bytes) := bs.map fun b => b.map (·.id)

def w1DA : DA := { head := 50, blobs := [(1, [[0xaa, 1], [0xaa, 2], [0xaa, 3]]), (2, [[0xbb, 1]])] }

/-- the witness history is what the real code does today -/
theorem C20_w1_is_real : idsOf (play ⟨1, 2⟩ [(w1DA, 5), (w1DA, 5), (w1DA, 5)]).batches = Gen.C20.w1Ids := by
  decide +kernel

/-- **Old witness of "height re-released" / "stuck at a re-released height", now.** Before the
repair the second call released `aa03, aa01` (height 1 again) and 12 calls never left height 1.
Now: no id twice; 12 calls release exactly the four txs of heights 1 and 2 in DA order, the
carry-over is empty and the scan position has moved on. -/
theorem C20_w1_now_behaves :
    ((play ⟨1, 2⟩ [(w1DA, 5), (w1DA, 5)]).batches.flatten.map (·.id)).Nodup ∧
    (play ⟨1, 2⟩ (List.replicate 12 (w1DA, 5))).batches.flatten = stream w1DA.content 1 2 ∧
    (play ⟨1, 2⟩ (List.replicate 12 (w1DA, 5))).st.queue = [] ∧
    (play ⟨1, 2⟩ (List.replicate 12 (w1DA, 5))).st.scanP = some 35 := by
  decide +kernel

def w2DA : DA := { head := 2, blobs := [(1, [[1]])] }
def w2DA' : DA := { head := 10, blobs := [(1, [[1]]), (2, [[2]])] }

theorem C20_w2_is_real : idsOf (play ⟨1, 1⟩ [(w2DA, 0), (w2DA', 0), (w2DA', 0)]).batches = Gen.C20.w2Ids := by
  decide +kernel

/-- **Old witness of "height from the future skipped", now.** Before the repair the first call
moved the position to 3 and the tx that appeared at height 2 was never released. Now the first call
stops at height 2 (not reached yet) and the second call releases it. -/
theorem C20_w2_now_behaves :
    w2DA.sees w2DA' ∧
    (play ⟨1, 1⟩ [(w2DA, 0)]).st.scanP = some 2 ∧
    (play ⟨1, 1⟩ [(w2DA, 0), (w2DA', 0), (w2DA', 0)]).batches.flatten = stream w2DA'.content 1 2 := by
  refine ⟨⟨by decide, ?_⟩, by decide +kernel, by decide +kernel⟩
  intro h hh
  have : h = 0 ∨ h = 1 := by simp [w2DA] at hh; omega
  rcases this with rfl | rfl <;> decide

def w3DA : DA := { head := 20, blobs := [(1, [[1], [9, 9, 9, 9, 9, 9], [3]]), (2, [[4]])] }

theorem C20_w3_is_real : idsOf (play ⟨1, 1⟩ [(w3DA, 4), (w3DA, 4), (w3DA, 4)]).batches = Gen.C20.w3Ids := by
  decide +kernel

/-- **Old witness of "oversize tx overtaken", now.** Before the repair the calls with limit 4 kept
releasing `01` in front of the 6-byte tx. Now, with limit 4, the first call releases `01`, pushes
the 6-byte tx and `03` back, and the next calls release nothing and stay put (limit smaller than
the head of the carry-over); when a call with limit 10 arrives, the 6-byte tx comes first, then
`03`, then height 2 — the DA order. -/
theorem C20_w3_now_behaves :
    idsOf (play ⟨1, 1⟩ [(w3DA, 4), (w3DA, 4), (w3DA, 4), (w3DA, 10)]).batches =
      [[mkId 1 0], [], [], [mkId 1 1, mkId 1 2, mkId 2 0]] ∧
    (play ⟨1, 1⟩ [(w3DA, 4), (w3DA, 4), (w3DA, 4)]).st = (play ⟨1, 1⟩ [(w3DA, 4)]).st ∧
    (play ⟨1, 1⟩ [(w3DA, 4), (w3DA, 4), (w3DA, 4), (w3DA, 10)]).batches.flatten = stream w3DA.content 1 2 := by
  decide +kernel

/-! ## Non-vacuity of the history theorems -/

/-- the hypotheses of `C20_da_order` / `C20_exactly_once` are satisfiable: the scripted DA answers
its own content, its ids are distinct -/
example : AllAnswer w1DA.content (viewSteps [(w1DA, 5), (w1DA, 5)]) ∧ IdsNotAhead w1DA.content ∧
    ((stream w1DA.content 1 4).map (·.id)).Nodup :=
  ⟨allAnswer_views w1DA _ (fun _ _ => by simp_all [DA.sees_refl]), DA.idsNotAhead _, by decide +kernel⟩

/-- a call that releases a prefix of a height, pushes back the rest and moves the position past it -/
example : let o := getNextBatch ⟨1, 2⟩ w1DA.fetch {} { max := 5 }
    o.resp.items ++ flat o.st.queue = stream w1DA.content 1 1 ∧ o.st.queue ≠ [] ∧ o.st.scanP = some 2 := by
  decide +kernel

/-- a call in which everything fits moves the position past what it consumed -/
example : let o := getNextBatch ⟨1, 2⟩ w1DA.fetch {} { max := 0 }
    o.resp.items = stream w1DA.content 1 3 ∧ o.st.queue = [] ∧ o.st.scanP = some 4 := by
  decide +kernel

/-- a retrieval error stops the scan at its height, a later call without the fault goes on -/
example : let d : DA := { w1DA with errGet := [2] }
    (play ⟨1, 2⟩ [(d, 0)]).st.scanP = some 2 ∧
    (play ⟨1, 2⟩ [(d, 0), (w1DA, 0)]).batches.flatten = stream w1DA.content 1 2 := by
  decide +kernel

/-- `AllDrain` is satisfiable and `C20_drains` applies: heights 1 and 2 of `w1DA`, limit 5, 6 calls -/
example : stream w1DA.content 1 2 <+: released ⟨1, 2⟩ (viewSteps (List.replicate 6 (w1DA, 5))) := by
  decide +kernel

/-! ## Crashes INSIDE a call, at every durable write

`crashAt s (call).writes k`: the process dies when the first `k` durable writes of the call are on
disk (pop's `Save`; push-back's `Save` when a height did not fit; `Put` of the scan position), the
answer is NOT delivered, the caller keeps its `LastBatchData`, a new sequencer starts on that image.
BEYOND THE PROPERTY'S QUANTIFIER: C20 speaks of restarts between any two calls, which is the crash
point `k = 0` (`C20_crash_before_first_write`) and is proved in full above (`C20_da_order`, …).  The
statement below extends the invariant to `k ≥ 1` with "released" = delivered to the caller; it is
FALSE of the current code (the answer is persisted as handed out before it is returned; histogram
keys `beyond-quantifier/dropped/pop-saved-before-answer-returned`,
`…/scan-position-saved-before-answer-returned`, `beyond-quantifier/duplicated|reordered/pushback-saved-before-scan-position`).
Because the property does not demand it, this is documented by kernel-checked witnesses and NOT
listed as a finding; what is true at those crash points is proved for all histories, and the
monitor reports (`C20/crash/unaccounted/…`) only what `C20_crash_accounting` does not allow. -/

/-- what reached the caller in a history with crashes inside calls -/
def deliveredC (cfg : Cfg) (evs : List CStep) : List Item := deliveredOf (playC cfg {} [] evs).log
def finalC (cfg : Cfg) (evs : List CStep) : St := (playC cfg {} [] evs).st
def logC (cfg : Cfg) (evs : List CStep) : List Chunk := (playC cfg {} [] evs).log

/-- A statement BEYOND C20's quantifier (the property only speaks of restarts between two calls):
`C20_da_order` for histories in which calls may die after any number of their
durable writes — what was delivered, followed by the persisted carry-over, is the DA stream up to
the persisted scan position. -/
def C20_crash_inside_call_full : Prop :=
  ∀ (cfg : Cfg) (c : Content), IdsNotAhead c → ∀ evs : List CStep, AllAnswerC c evs →
    ∃ n, deliveredC cfg evs ++ flat (finalC cfg evs).queue = stream c cfg.daStart n ∧
      persistedPos cfg (finalC cfg evs) = cfg.daStart + n

/-- DA of the crash witnesses: height 1 holds `aa01, aa02, aa03`, head 3 -/
def cwDA : DA := { head := 3, blobs := [(1, [[0xaa, 1], [0xaa, 2], [0xaa, 3]])] }

/-- **The extended statement fails** (not a finding: C20 does not quantify over crashes inside a
call): one call (limit 0 = default: everything fits) that dies after its
last write (`P,S`), i.e. between the `Put` of the scan position and the `return`: nothing was
delivered, the carry-over is empty, the persisted position is 3 — the three txs of height 1 are lost. -/
theorem C20_crash_inside_call_fails : ¬ C20_crash_inside_call_full := by
  intro h
  obtain ⟨n, h1, h2⟩ := h ⟨1, 2⟩ cwDA.content (DA.idsNotAhead _) [.crash cwDA.fetch 0 2]
    ⟨DA.answers cwDA cwDA (DA.sees_refl _), trivial⟩
  have e1 : deliveredC ⟨1, 2⟩ [.crash cwDA.fetch 0 2] ++ flat (finalC ⟨1, 2⟩ [.crash cwDA.fetch 0 2]).queue = [] := by
    decide +kernel
  have e2 : persistedPos ⟨1, 2⟩ (finalC ⟨1, 2⟩ [.crash cwDA.fetch 0 2]) = 3 := by decide +kernel
  rw [e1] at h1; rw [e2] at h2
  have hn : n = 2 := by simp at h2; omega
  subst hn
  revert h1; decide +kernel

/-- the same loss at the FIRST write: `aa03` is carried over, the next call pops it, saves the pop
and dies (`k = 1` of `P,S`): never delivered, not in the persisted queue, position already past it -/
theorem C20_crash_pop_saved_loses :
    let evs : List CStep := [.call cwDA.fetch 5, .crash cwDA.fetch 5 1, .call cwDA.fetch 5, .call cwDA.fetch 5]
    (deliveredC ⟨1, 2⟩ evs).map (·.tx) = [[0xaa, 1], [0xaa, 2]] ∧ (finalC ⟨1, 2⟩ evs).queue = [] ∧
    (finalC ⟨1, 2⟩ evs).scanP = some 3 ∧ SafeCrashes ⟨1, 2⟩ {} [] evs ∧
    logC ⟨1, 2⟩ evs = [.delivered (mkItems 1 0 [[0xaa, 1], [0xaa, 2]]),
      .crashed (mkItems 1 2 [[0xaa, 3]]) (mkItems 1 2 [[0xaa, 3]]), .delivered [], .delivered []] := by
  decide +kernel

/-- the crash point excluded from the partial theorems: between the push-back's `Save` and the
scan position's `Put` (`k = 2` of `P,P,S`).  The restarted sequencer releases the carried-over END
of the height first, then scans the height again: `aa03` before `aa01` (reordered) and twice. -/
theorem C20_crash_torn_pushback_duplicates :
    let evs : List CStep := [.crash cwDA.fetch 5 2, .call cwDA.fetch 5, .call cwDA.fetch 5]
    (deliveredC ⟨1, 2⟩ evs).map (·.tx) = [[0xaa, 3], [0xaa, 1], [0xaa, 2], [0xaa, 3]] ∧
    ¬ SafeCrashes ⟨1, 2⟩ {} [] evs := by
  decide +kernel

/-- **Accounting of every history with crashes at the safe points** (before the first write, after
the pop's save, after the last write; any calls, limits, DA fault patterns, restarts in between):
what was delivered and what the crashes lost, in the order of the calls, followed by the persisted
carry-over, IS the DA stream up to the persisted scan position; and what a crash lost is a prefix
of the undelivered answer of the call that died. -/
theorem C20_crash_accounting (cfg : Cfg) (c : Content) (hc : IdsNotAhead c) (evs : List CStep)
    (hA : AllAnswerC c evs) (hs : SafeCrashes cfg {} [] evs) :
    (∃ n, accountOf (logC cfg evs) ++ flat (finalC cfg evs).queue = stream c cfg.daStart n ∧
      persistedPos cfg (finalC cfg evs) = cfg.daStart + n) ∧ LossesBounded (logC cfg evs) := by
  have h := playC_inv c cfg hc evs hA {} [] [] (inv_init c cfg) hs
  exact ⟨by simpa [logC, finalC] using h.1.str, h.2⟩

/-- **What holds beyond the quantifier.** In every such history nothing is reordered or duplicated — what was
delivered is a subsequence of the DA stream below the persisted scan position — and the ONLY
transactions of that stream that are neither delivered nor in the persisted carry-over are those of
the undelivered answer of a call that died (a prefix of it: its popped part after the pop's save,
all of it after the last write). -/
theorem C20_crash_loses_at_most_the_undelivered_answer (cfg : Cfg) (c : Content) (hc : IdsNotAhead c)
    (evs : List CStep) (hA : AllAnswerC c evs) (hs : SafeCrashes cfg {} [] evs) :
    ∃ n, persistedPos cfg (finalC cfg evs) = cfg.daStart + n ∧
      (deliveredC cfg evs).Sublist (stream c cfg.daStart n) ∧
      ∀ it ∈ stream c cfg.daStart n, it ∈ deliveredC cfg evs ∨ it ∈ flat (finalC cfg evs).queue ∨
        ∃ und lost, Chunk.crashed und lost ∈ logC cfg evs ∧ it ∈ lost ∧ lost <+: und := by
  obtain ⟨⟨n, h1, h2⟩, hb⟩ := C20_crash_accounting cfg c hc evs hA hs
  refine ⟨n, h2, ?_, ?_⟩
  · rw [← h1]
    exact List.Sublist.trans (delivered_sublist_account _) (List.sublist_append_left _ _)
  · intro it hit
    rw [← h1, List.mem_append] at hit
    rcases hit with hit | hit
    · rcases mem_account _ it hit with hd | ⟨u, lo, hm, hl⟩
      · exact Or.inl hd
      · exact Or.inr (Or.inr ⟨u, lo, hm, hl, lossesBounded_mem _ hb u lo hm⟩)
    · exact Or.inr (Or.inl hit)

/-- no id is delivered twice when the DA ids are distinct -/
theorem C20_crash_exactly_once (cfg : Cfg) (c : Content) (hc : IdsNotAhead c)
    (evs : List CStep) (hA : AllAnswerC c evs) (hs : SafeCrashes cfg {} [] evs)
    (hd : ∀ n, ((stream c cfg.daStart n).map (·.id)).Nodup) :
    ((deliveredC cfg evs).map (·.id)).Nodup := by
  obtain ⟨n, _, h, _⟩ := C20_crash_loses_at_most_the_undelivered_answer cfg c hc evs hA hs
  exact List.Nodup.sublist (h.map _) (hd n)

/-- the link to the property as stated: the crash point `k = 0` (before the first write) IS a
restart between two calls — same image, nothing lost — so C20's own quantifier is the `k = 0`
fragment of these histories, for which `C20_da_order` etc. hold in full -/
theorem C20_crash_before_first_write (cfg : Cfg) (da : Nat → Fetch) (s : St) (last : List Bytes) (m : Nat) (ws : List Wr) :
    crashAt s ws 0 = restart s ∧ lostAt cfg da s last m 0 = [] :=
  ⟨crashAt_zero s ws, by simp [lostAt]⟩

/-- a crash after the last write restarts in exactly the state the completed call leaves (the
writes replayed on the old image ARE the new image): the loss is the undelivered answer, no more -/
theorem C20_crash_after_last_write (cfg : Cfg) (da : Nat → Fetch) (s : St) (m k : Nat)
    (hk : (getNextBatch cfg da s { max := m }).writes.length ≤ k) :
    crashAt s (getNextBatch cfg da s { max := m }).writes k = (getNextBatch cfg da s { max := m }).st ∧
    lostAt cfg da s [] m k = (getNextBatch cfg da s { max := m }).resp.items := by
  refine ⟨crashAt_all cfg da s m k hk, ?_⟩
  have := gnb_writes_len cfg da s m
  have h0 : k ≠ 0 := by omega
  simp [lostAt, h0, hk]

/-- a crash after the pop's save and before the next write loses exactly what the call popped
from the persisted carry-over — nothing when there was no carry-over to pop -/
theorem C20_crash_after_pop_save (cfg : Cfg) (da : Nat → Fetch) (s : St) (m : Nat) :
    lostAt cfg da s [] m 1 = (popQueue (effMax m) s.queue 0 0).taken ∧
    (s.queue = [] → lostAt cfg da s [] m 1 = []) := by
  have := gnb_writes_len cfg da s m
  have h : ¬ (getNextBatch cfg da s { max := m }).writes.length ≤ 1 := by omega
  refine ⟨by simp [lostAt, h], fun hq => ?_⟩
  simp [lostAt, h, hq, popQueue]

/-- non-vacuity: a history with crashes at all three safe points satisfies the hypotheses, and its
accounting is the stream with one tx lost -/
example : let evs : List CStep := [.crash cwDA.fetch 5 0, .crash cwDA.fetch 5 1, .call cwDA.fetch 5,
      .restart, .crash cwDA.fetch 5 7, .call cwDA.fetch 5]
    SafeCrashes ⟨1, 2⟩ {} [] evs ∧ AllAnswerC cwDA.content evs ∧
    (deliveredC ⟨1, 2⟩ evs).map (·.tx) = [[0xaa, 1], [0xaa, 2]] ∧
    accountOf (logC ⟨1, 2⟩ evs) = stream cwDA.content 1 2 :=
  ⟨by decide +kernel, ⟨DA.answers _ _ (DA.sees_refl _), DA.answers _ _ (DA.sees_refl _), DA.answers _ _ (DA.sees_refl _),
    DA.answers _ _ (DA.sees_refl _), DA.answers _ _ (DA.sees_refl _), trivial⟩, by decide +kernel, by decide +kernel⟩

end Spec.C20
