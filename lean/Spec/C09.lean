import Model.Retrieve

/-! # C09 — DA scanning never skips a height, retries on failure, survives any blob
(first theorems: cursor discipline of the scan loop; classification is a total function of the bytes by
construction — `Retrieve.classify` is a total Lean function over `Bytes`) -/
namespace Spec.C09
open Wire Chain Retrieve

theorem handleBlobs_cursor (p : Bytes) (n : RNode) (da : Nat) (bs : List (Bytes × Oracle)) (evs : List Event) :
    (handleBlobs p n da bs evs).1.daHeight = n.daHeight := by
  induction bs generalizing n evs with
  | nil => rfl
  | cons b rest ih =>
    obtain ⟨b, o⟩ := b
    unfold handleBlobs
    split
    · rw [ih]
    · rw [ih]
    · rw [ih]

theorem processNext_cursor (p : Bytes) (n : RNode) (bs : List (Bytes × Oracle)) (fuel : Nat) (outs : List Fetch) (used : Nat) :
    (processNext p n bs fuel outs used).1.daHeight = n.daHeight := by
  induction fuel generalizing outs used with
  | zero => rfl
  | succ f ih =>
    unfold processNext
    simp only
    split
    · split
      · rfl
      · exact handleBlobs_cursor _ _ _ _ _
    · rfl
    · rfl
    · split
      · exact ih _ _
      · split
        · rfl
        · exact handleBlobs_cursor _ _ _ _ _
    · exact ih _ _

/-- a height that is "from the future" is never passed: the attempt fails at once and the node is unchanged -/
theorem future_not_passed (p : Bytes) (n : RNode) (bs : List (Bytes × Oracle)) (fuel : Nat) (rest : List Fetch) (used : Nat) :
    (processNext p n bs (fuel + 1) (.future :: rest) used).2.2.1 = false ∧
    (processNext p n bs (fuel + 1) (.future :: rest) used).1 = n := by
  simp [processNext]

/-- **the cursor never decreases** over a whole scan, whatever the DA layer holds and answers -/
theorem scan_cursor_monotone (p : Bytes) (fuel : Nat) (n : RNode) (v : DAView) (evs : List Event) (tr : List (Nat × Nat × Bool)) :
    n.daHeight ≤ (scan p fuel n v evs tr).1.daHeight := by
  induction fuel generalizing n v evs tr with
  | zero => exact Nat.le_refl _
  | succ f ih =>
    unfold scan
    simp only
    split
    · refine Nat.le_trans ?_ (ih _ _ _ _)
      simp
    · simp [processNext_cursor]

/-- an empty blob is ignored before any decoding -/
theorem empty_blob_ignored (o : Oracle) (p : Bytes) : (match classify o p [] with | .empty => true | _ => false) = true := by
  simp [classify]


/-- **No blob brings the scan down**: handling any list of blobs (any bytes, any oracle answers) never sets the
`crashed` flag of the model — the branch of `handlePotentialData` that dereferenced missing metadata is gone
(/repo 76641b6) and the Lean classifier is total. -/
theorem no_blob_crashes_the_scan (p : Bytes) (n : RNode) (da : Nat) (bs : List (Bytes × Oracle)) (evs : List Event) :
    (handleBlobs p n da bs evs).1.crashed = n.crashed := by
  induction bs generalizing n evs with
  | nil => rfl
  | cons b rest ih =>
    obtain ⟨b, o⟩ := b
    unfold handleBlobs
    split <;> rw [ih]

/-- signed data is handed to sync only with its metadata (what the sync loop needs to place it) -/
theorem accepted_data_has_metadata (o : Oracle) (p bs : Bytes) (sd : SignedData)
    (h : classifyData o p bs = .dataAccepted sd) : sd.data.metadata.isSome = true := by
  unfold classifyData at h
  split at h
  · simp at h
  · rename_i x _
    split at h
    · simp at h
    · split at h
      · simp at h
      · rename_i hm
        split at h
        · have : x = sd := by simpa using h
          subst this
          cases hx : x.data.metadata <;> simp_all
        · simp at h

end Spec.C09
