import Model.Retrieve
import Proofs.RetrieveEnd
import Proofs.RetrieveAdmit

/-! # C09 — DA scanning never skips a height, retries on failure, survives any blob

All theorems are about `Model/Retrieve.lean` (`scan` = `RetrieveLoop`, `processNext` =
`processNextDAHeaderAndData`, `chunks` = the id batching of `types.RetrieveWithHelpers`, `handleBlobs` /
`classify` = `handlePotentialHeader` / `handlePotentialData`), the definitions the driver `drv_C09` executes and
the differential check compares with the real `RetrieveLoop` goroutine.  They quantify over every DA content
(`DAView.placed`: any bytes, any number of blobs per height, any oracle answers), every script of fetch
outcomes per height and every start height (`n.daHeight`).  Helper lemmas: `Proofs/Retrieve*.lean`.

Vocabulary defined in `Proofs/`: `Fetch.isRetry len f` (an attempt that failed and is retried: `.errIds`, or
`.errGet c` for a chunk that exists), `Fetch.isPass len f` (`.ok`, `.notFound`, or `.errGet c` beyond the last
chunk), `outcomeAt outs j` (what attempt `j` sees: the scripted outcome, `.ok` once the script is exhausted),
`eventOf` / `hMarkOf` / `dMarkOf` (what one blob contributes to the hand-off), `accepting`.

(5) *Totality is by construction*: `classify`, `handleBlobs`, `processNext`, `scan` are total Lean functions
defined by structural recursion over the bytes / the fuel; no input can make them diverge or fail (this is not
listed as a theorem).  The theorems of section (5) relate the current classifier to the pre-fix handler WITH its
panic (`classifyDataOld`).  That the real decoder never panics is the fuzz stream of the check (exploration), not
a theorem. -/
namespace Spec.C09
open Wire Chain Retrieve

/-! ## first theorems (kept) -/

theorem handleBlobs_cursor (p : Bytes) (n : RNode) (da : Nat) (bs : List (Bytes × Oracle)) (evs : List Event) :
    (handleBlobs p n da bs evs).1.daHeight = n.daHeight := handleBlobs_daHeight p n da bs evs

theorem processNext_cursor (p : Bytes) (n : RNode) (bs : List (Bytes × Oracle)) (fuel : Nat) (outs : List Fetch) (used : Nat) :
    (processNext p n bs fuel outs used).1.daHeight = n.daHeight := processNext_daHeight p n bs fuel outs used

/-- a height that is "from the future" is never passed: the attempt fails at once and the node is unchanged -/
theorem future_not_passed (p : Bytes) (n : RNode) (bs : List (Bytes × Oracle)) (fuel : Nat) (rest : List Fetch) (used : Nat) :
    (processNext p n bs (fuel + 1) (.future :: rest) used).2.2.1 = false ∧
    (processNext p n bs (fuel + 1) (.future :: rest) used).1 = n := by
  simp [processNext]

/-- **the cursor never decreases** over a whole scan, whatever the DA layer holds and answers -/
theorem scan_cursor_monotone (p : Bytes) (fuel : Nat) (n : RNode) (v : DAView) (evs : List Event) (tr : List (Nat × Nat × Bool)) :
    n.daHeight ≤ (scan p fuel n v evs tr).1.daHeight := by
  induction fuel generalizing n v evs tr with
  | zero => exact Nat.le_refl _
  | succ f ih =>
    unfold scan
    simp only
    split
    · refine Nat.le_trans ?_ (ih _ _ _ _)
      simp
    · simp [processNext_cursor]

/-- an empty blob is ignored before any decoding -/
theorem empty_blob_ignored (o : Oracle) (p : Bytes) : (match classify o p [] with | .empty => true | _ => false) = true := by
  simp [classify]

/-- signed data is handed to sync only with its metadata (what the sync loop needs to place it) -/
theorem accepted_data_has_metadata (o : Oracle) (p bs : Bytes) (sd : SignedData)
    (h : classifyData o p bs = .dataAccepted sd) : sd.data.metadata.isSome = true :=
  ((classifyData_accepted_iff o p bs sd).1 h).2.2.1

/-! ## (5) the one blob class that crashed the scan is no longer reachable

Totality of the Lean classifier is by construction; what is a THEOREM is the relation to the pre-fix handler,
modelled with its panic (`classifyDataOld … = none`: accepted signed data without metadata made
`handlePotentialData` dereference nil, /repo 76641b6): wherever the old handler panicked the current one ignores
the blob, and everywhere else the two agree. -/

theorem old_panic_branch_now_ignored (o : Oracle) (p bs : Bytes) (h : classifyDataOld o p bs = none) :
    classifyData o p bs = .ignored := by
  unfold classifyDataOld at h
  unfold classifyData
  cases hd : SignedData.decode (fun _ => o.keyOk) bs with
  | none => rfl
  | some sd =>
    rw [hd] at h
    simp only at h ⊢
    cases ht : sd.data.txs.isEmpty <;> cases hv : validSignedData o p sd <;>
      cases hm : sd.data.metadata.isNone <;> simp_all

theorem current_classifier_agrees_elsewhere (o : Oracle) (p bs : Bytes) (c : BlobClass)
    (h : classifyDataOld o p bs = some c) : classifyData o p bs = c := by
  unfold classifyDataOld at h
  unfold classifyData
  cases hd : SignedData.decode (fun _ => o.keyOk) bs with
  | none => rw [hd] at h; simpa using h
  | some sd =>
    rw [hd] at h
    simp only at h ⊢
    cases ht : sd.data.txs.isEmpty <;> cases hv : validSignedData o p sd <;>
      cases hm : sd.data.metadata.isNone <;> simp_all

/-! ## demo objects for the non-vacuity examples -/

def okO : Oracle := { keyOk := true, hdrSigOk := true, dataSigOk := true }
/-- the proposer's (marshalled Ed25519) public key and the address genesis names: SHA-256 of the raw key -/
def demoKey : Bytes := [8, 1, 18, 32] ++ List.replicate 32 9
def demoAddr : Bytes := sha256 (List.replicate 32 9)
def demoHdr : SignedHeader :=
  { header := { height := 3, proposerAddress := demoAddr, chainId := "c" }, signature := [1],
    signer := { address := demoAddr, pubKey := demoKey } }
def demoDat : SignedData :=
  { data := { metadata := some { chainId := "c", height := 3 }, txs := [[1]] }, signature := [2],
    signer := { address := demoAddr, pubKey := demoKey } }
/-- heights 1 and 2 hold blobs (a header + junk, then signed data), 3 is empty; the listing of height 1 fails
once, a chunk fetch at height 2 fails once; height 4 has not been produced yet -/
def demoView : DAView :=
  { placed := [(1, demoHdr.encode, okO), (1, [0xff, 0xff], okO), (2, demoDat.encode, okO)],
    scripts := [(1, [.errIds, .ok]), (2, [.errGet 0])], top := 4 }

/-- kernel-evaluated: the pre-fix handler panicked on the proposer-signed data blob stripped of its metadata; the
current classifier ignores it -/
theorem old_handler_panicked_on_data_without_metadata :
    classifyDataOld okO demoAddr ({ demoDat with data := { demoDat.data with metadata := none } } : SignedData).encode = none ∧
    classify okO demoAddr ({ demoDat with data := { demoDat.data with metadata := none } } : SignedData).encode = .ignored := by
  decide +kernel
example : classifyData okO demoAddr ({ demoDat with data := { demoDat.data with metadata := none } } : SignedData).encode = .ignored :=
  old_panic_branch_now_ignored _ _ _ old_handler_panicked_on_data_without_metadata.1
example : classifyData okO demoAddr demoDat.encode = .dataAccepted demoDat :=
  current_classifier_agrees_elsewhere _ _ _ _ (by decide +kernel)

/-! ## (1) heights are examined consecutively, none skipped; a failed height is retried -/

/-- **Never skips.** For every DA content, every fetch-outcome script, every start height and every number of
loop rounds: the heights the scan examined are `start, start+1, start+2, …`; every entry except possibly the
last was passed; the cursor ends one past the last examined height if that one was passed, else AT the last
examined height (it will be examined again); at most one height per round. -/
theorem scan_never_skips (p : Bytes) (fuel : Nat) (n : RNode) (v : DAView) :
    let tr := (scan p fuel n v [] []).2.2.2
    (∀ (i : Nat) (h : i < tr.length), (tr[i]).1 = n.daHeight + i) ∧
    (∀ (i : Nat) (h : i + 1 < tr.length), (tr[i]'(by omega)).2.2 = true) ∧
    (scan p fuel n v [] []).1.daHeight =
      (match tr.getLast? with
       | none => n.daHeight
       | some e => if e.2.2 then e.1 + 1 else e.1) ∧
    tr.length ≤ fuel := by
  obtain ⟨new, h1, h2, h3⟩ := scan_trace_spec p fuel n v [] []
  simp only [List.nil_append] at h1
  subst h1
  exact ⟨h3.consecutive, h3.passed_but_last, h3.cursor, h2⟩
example : (scan demoAddr 9 { daHeight := 1 } demoView [] []).2.2.2 = [(1, 2, true), (2, 2, true), (3, 1, true), (4, 1, false)] ∧
    (scan demoAddr 9 { daHeight := 1 } demoView [] []).1.daHeight = 4 := by decide +kernel

/-- the trace and the events of a scan are appended to what was there; node and DA view do not depend on the
accumulators (so the statements about `scan … [] []` are about every call) -/
theorem scan_appends (p : Bytes) (fuel : Nat) (n : RNode) (v : DAView) (evs : List Event) (tr : List (Nat × Nat × Bool)) :
    (scan p fuel n v evs tr).2.2.2 = tr ++ (scan p fuel n v [] []).2.2.2 ∧
    (scan p fuel n v evs tr).2.2.1 = evs ++ (scan p fuel n v [] []).2.2.1 ∧
    (scan p fuel n v evs tr).1 = (scan p fuel n v [] []).1 ∧
    (scan p fuel n v evs tr).2.1 = (scan p fuel n v [] []).2.1 := scan_trace_acc p fuel n v evs tr
example : (scan demoAddr 2 { daHeight := 1 } demoView [] [(0, 1, true)]).2.2.2 = [(0, 1, true), (1, 2, true), (2, 2, true)] := by
  decide +kernel

/-- **Retries the same height.** If a scan stopped on a height it could not pass, the cursor stays there and
the next scan — whenever it runs, whatever the DA layer holds by then — examines that same height first. -/
theorem failed_height_examined_again (p : Bytes) (fuel : Nat) (n : RNode) (v : DAView) (h k : Nat)
    (hl : (scan p fuel n v [] []).2.2.2.getLast? = some (h, k, false)) (fuel' : Nat) (v' : DAView) :
    (scan p fuel n v [] []).1.daHeight = h ∧
    ((scan p (fuel' + 1) (scan p fuel n v [] []).1 v' [] []).2.2.2.head?).map (·.1) = some h := by
  have hc := (scan_never_skips p fuel n v).2.2.1
  simp only [hl] at hc
  have hc' : (scan p fuel n v [] []).1.daHeight = h := by simpa using hc
  exact ⟨hc', by rw [scan_head, hc']⟩
example : (scan demoAddr 9 { daHeight := 1 } demoView [] []).2.2.2.getLast? = some (4, 1, false) := by decide +kernel

/-! ## (2) a height is passed only after a successful fetch or a confirmed empty height -/

/-- **Only failures ⇒ not passed.** If every one of the attempts sees a listing error or an error on a chunk
that exists, the height is not passed, the node is unchanged and nothing is handed to sync. -/
theorem not_passed_after_failures_only (p : Bytes) (n : RNode) (blobs : List (Bytes × Oracle)) (fuel : Nat)
    (outs : List Fetch) (used : Nat)
    (h : ∀ j, j < fuel → (outcomeAt outs j).isRetry blobs.length = true) :
    processNext p n blobs fuel outs used = (n, [], false, used + fuel) :=
  processNext_all_retry p n blobs fuel outs used h
example : processNext demoAddr {} [([1], okO)] dAFetcherRetries (List.replicate 10 .errIds) 0 = (({} : RNode), [], false, 10) ∧
    (∀ j, j < dAFetcherRetries → (outcomeAt (List.replicate 10 Fetch.errIds) j).isRetry 1 = true) :=
  ⟨not_passed_after_failures_only _ _ _ _ _ _ (by decide), by decide⟩

/-- **Future ⇒ not passed**, also after any number of failed attempts: the first non-retried outcome being
"from the future" ends the round at once with the node unchanged. -/
theorem not_passed_when_future (p : Bytes) (n : RNode) (blobs : List (Bytes × Oracle)) (fuel : Nat)
    (outs : List Fetch) (used i : Nat) (hi : i < fuel)
    (hret : ∀ j, j < i → (outcomeAt outs j).isRetry blobs.length = true)
    (hfut : outcomeAt outs i = .future) :
    processNext p n blobs fuel outs used = (n, [], false, used + i + 1) := by
  rw [processNext_decisive p n blobs fuel outs used i hi hret (by rw [hfut]; rfl), hfut]
  rfl
example : processNext demoAddr {} [([1], okO)] dAFetcherRetries [.errIds, .errGet 0, .future, .ok] 0 = (({} : RNode), [], false, 3) :=
  not_passed_when_future _ _ _ _ _ _ 2 (by decide) (by decide) (by decide)

/-- **Passed ⇒ some attempt succeeded.** A verdict `true` means that, after retried failures only, an attempt
within the budget saw `.ok`, `.notFound`, or an `.errGet` for a chunk beyond the last one (an error that never
fires); the attempts consumed are exactly those. -/
theorem passed_only_after_success (p : Bytes) (n : RNode) (blobs : List (Bytes × Oracle)) (fuel : Nat)
    (outs : List Fetch) (used : Nat) (hv : (processNext p n blobs fuel outs used).2.2.1 = true) :
    ∃ i, i < fuel ∧ (∀ j, j < i → (outcomeAt outs j).isRetry blobs.length = true) ∧
      (outcomeAt outs i).isPass blobs.length = true ∧
      (processNext p n blobs fuel outs used).2.2.2 = used + i + 1 := by
  rcases retry_or_decisive blobs.length outs fuel with h | ⟨i, hi, h1, h2⟩
  · rw [processNext_all_retry p n blobs fuel outs used h] at hv; simp at hv
  · refine ⟨i, hi, h1, ?_, ?_⟩
    · apply isPass_of_not_retry_not_future h2
      intro hf
      rw [not_passed_when_future p n blobs fuel outs used i hi h1 hf] at hv
      simp at hv
    · rw [processNext_decisive p n blobs fuel outs used i hi h1 h2]
      cases outcomeAt outs i <;> rfl
example : (processNext demoAddr {} [([1], okO)] dAFetcherRetries [.errIds, .errGet 0, .ok] 0).2.2.1 = true := by
  decide +kernel

/-- **The scan stops at a height it cannot pass** (the statement of (2) at the level of the loop): if the
outcomes the 10 attempts at the cursor will see are all failures, or the first one that is not a failure is
"from the future", the scan examines that height only, reports it as not passed, emits nothing and leaves the
node — cursor included — unchanged. -/
theorem scan_stops_at_failing_height (p : Bytes) (fuel : Nat) (n : RNode) (v : DAView)
    (h : (∀ j, j < dAFetcherRetries →
            (outcomeAt (v.effective n.daHeight) j).isRetry (v.blobsAt n.daHeight).length = true) ∨
         (∃ i, i < dAFetcherRetries ∧
            (∀ j, j < i → (outcomeAt (v.effective n.daHeight) j).isRetry (v.blobsAt n.daHeight).length = true) ∧
            outcomeAt (v.effective n.daHeight) i = .future)) :
    (scan p (fuel + 1) n v [] []).1 = n ∧ (scan p (fuel + 1) n v [] []).2.2.1 = [] ∧
    ∃ k, (scan p (fuel + 1) n v [] []).2.2.2 = [(n.daHeight, k, false)] := by
  have hv : (processNext p n (v.blobsAt n.daHeight) dAFetcherRetries (v.effective n.daHeight) 0).2.2.1 = false := by
    rcases h with h | ⟨i, hi, h1, h2⟩
    · rw [not_passed_after_failures_only p n _ _ _ _ h]
    · rw [not_passed_when_future p n _ _ _ _ i hi h1 h2]
  obtain ⟨a, b, c⟩ := scan_stops p fuel n v hv
  exact ⟨a, b, _, c⟩
example : (scan demoAddr 3 { daHeight := 4 } demoView [] []).2.2.2 = [(4, 1, false)] ∧
    outcomeAt (demoView.effective 4) 0 = .future := by decide +kernel

/-- a passed height whose attempts never answered "not found" was handled by `handleBlobs` at that DA height:
node and events are exactly its result -/
theorem passed_height_was_handed_off (p : Bytes) (n : RNode) (blobs : List (Bytes × Oracle)) (fuel : Nat)
    (outs : List Fetch) (used : Nat)
    (hv : (processNext p n blobs fuel outs used).2.2.1 = true) (hnf : Fetch.notFound ∉ outs) :
    (processNext p n blobs fuel outs used).1 = (handleBlobs p n n.daHeight blobs []).1 ∧
    (processNext p n blobs fuel outs used).2.1 = (handleBlobs p n n.daHeight blobs []).2 :=
  processNext_passed_eq p n blobs fuel outs used hv hnf
example : (processNext demoAddr { daHeight := 5 } [(demoHdr.encode, okO)] dAFetcherRetries [.errIds] 0).1.hMarks =
    [(demoHdr.header.hash, 5)] := by
  rw [(passed_height_was_handed_off _ _ _ _ _ _ (by decide +kernel) (by decide)).1]
  decide +kernel

/-! ## (3) every id is fetched, in order, whatever their number; at most 100 per request -/

/-- **All ids, in order.** -/
theorem all_ids_fetched_in_order {α : Type} (ids : List α) (fuel : Nat) (h : ids.length ≤ fuel) :
    (chunks 100 fuel ids).flatten = ids := chunks_flatten 100 (by decide) fuel ids h
example : chunks 100 250 (List.range 250) = [List.range 100, (List.range 200).drop 100, (List.range 250).drop 200] := by
  decide +kernel

/-- every request carries between 1 and 100 ids, and every request but the last exactly 100 -/
theorem chunk_sizes {α : Type} (ids : List α) (fuel : Nat) :
    (∀ c ∈ chunks 100 fuel ids, c.length ≤ 100 ∧ c ≠ []) ∧
    (∀ (i : Nat) (h : i + 1 < (chunks 100 fuel ids).length), ((chunks 100 fuel ids)[i]'(by omega)).length = 100) :=
  ⟨fun c hc => ⟨chunks_length_le 100 fuel ids c hc, chunks_ne_nil 100 (by decide) fuel ids c hc⟩,
   chunks_full_but_last 100 fuel ids⟩
example : (chunks 100 250 (List.range 250)).map List.length = [100, 100, 50] := by decide +kernel

/-! ## (4) the hand-off to sync -/

/-- **Exact hand-off.** For every blob list of a DA height: the events appended are exactly one per blob
classified `.hdrAccepted` whose header hash is not in `seenH` and one per blob classified `.dataAccepted` whose
commitment is not in `seenD` (`eventOf`), in blob order, each carrying that DA height; every accepted item
(seen or not) gets its DA-inclusion mark with that height (`hMarkOf`, `dMarkOf`; newest first); and nothing
else changes — not `seenH`, `seenD` or the cursor. -/
theorem handoff_exact (p : Bytes) (n : RNode) (da : Nat) (bs : List (Bytes × Oracle)) (evs : List Event) :
    handleBlobs p n da bs evs =
      ({ n with hMarks := (bs.filterMap (hMarkOf p da)).reverse ++ n.hMarks,
                dMarks := (bs.filterMap (dMarkOf p da)).reverse ++ n.dMarks },
       evs ++ bs.filterMap (eventOf p n.seenH n.seenD da)) := handleBlobs_eq p da bs n evs
example : (handleBlobs demoAddr {} 5 [(demoHdr.encode, okO), ([0xff], okO), (demoDat.encode, okO)] []).1.hMarks =
      [(demoHdr.header.hash, 5)] ∧
    (handleBlobs demoAddr {} 5 [(demoHdr.encode, okO), ([0xff], okO), (demoDat.encode, okO)] []).1.dMarks =
      [(demoDat.data.daCommitment, 5)] ∧
    (handleBlobs demoAddr {} 5 [(demoHdr.encode, okO), ([0xff], okO), (demoDat.encode, okO)] []).2.length = 2 := by
  decide +kernel

/-- what one blob contributes, spelled out (the definition of `eventOf`) -/
theorem eventOf_spec (p : Bytes) (sH sD : List Bytes) (da : Nat) (b : Bytes) (o : Oracle) :
    eventOf p sH sD da (b, o) =
      match classify o p b with
      | .hdrAccepted sh => if sh.header.hash ∈ sH then none else some (.hdr sh da)
      | .dataAccepted sd => if sd.data.daCommitment ∈ sD then none else some (.dat sd da)
      | _ => none := rfl

theorem handoff_changes_only_marks (p : Bytes) (n : RNode) (da : Nat) (bs : List (Bytes × Oracle)) (evs : List Event) :
    (handleBlobs p n da bs evs).1.seenH = n.seenH ∧ (handleBlobs p n da bs evs).1.seenD = n.seenD ∧
    (handleBlobs p n da bs evs).1.daHeight = n.daHeight := by
  rw [handoff_exact]; exact ⟨rfl, rfl, rfl⟩

/-- the whole scan does not touch the seen-caches and never removes a mark -/
theorem scan_changes_only_cursor_and_marks (p : Bytes) (fuel : Nat) (n : RNode) (v : DAView) (evs : List Event)
    (tr : List (Nat × Nat × Bool)) :
    (scan p fuel n v evs tr).1.seenH = n.seenH ∧ (scan p fuel n v evs tr).1.seenD = n.seenD ∧
    (∀ m ∈ n.hMarks, m ∈ (scan p fuel n v evs tr).1.hMarks) ∧
    (∀ m ∈ n.dMarks, m ∈ (scan p fuel n v evs tr).1.dMarks) := by
  obtain ⟨⟨a, b⟩, d, e⟩ := scan_frame p fuel n v evs tr
  exact ⟨a, b, d, e⟩
example : (scan demoAddr 9 { daHeight := 1, seenH := [[1]] } demoView [] []).1.seenH = [[1]] :=
  (scan_changes_only_cursor_and_marks _ _ _ _ _ _).1

/-! ## (6) every genuine item at a passed height reaches sync -/

/-- a genuine header blob: it decodes (`proto.Unmarshal` + `FromProto`) to `sh`, `sh` passes
`SignedHeader.ValidateBasic` (non-empty proposer address and signature, proposer address = signer address = the
address of the carried key, the signature verifies) and names the genesis proposer -/
def GenuineHeaderBlob (o : Oracle) (proposer bs : Bytes) (sh : SignedHeader) : Prop :=
  headerStage o bs = .ok sh ∧ validateBasicWire o sh = true ∧ sh.header.proposerAddress = proposer

/-- a genuine signed-data blob: it decodes to `sd`, carries transactions and metadata, is signed by a signer
with the proposer's address that is the address of the carried key, and is not at the same time a valid signed header (the header attempt comes first;
a blob produced by `SignedData.encode` never is — `encoded_data_is_genuine`) -/
def GenuineDataBlob (o : Oracle) (proposer bs : Bytes) (sd : SignedData) : Prop :=
  SignedData.decode (fun _ => o.keyOk) bs = some sd ∧ sd.data.txs ≠ [] ∧ sd.data.metadata.isSome = true ∧
  validSignedData o proposer sd = true ∧ ∀ sh, headerStage o bs = .ok sh → validateBasicWire o sh = false

/-- **Completeness of the header classification** (and its converse: nothing else is accepted as a header) -/
theorem genuine_header_accepted (o : Oracle) (proposer bs : Bytes) (sh : SignedHeader) :
    GenuineHeaderBlob o proposer bs sh ↔ classify o proposer bs = .hdrAccepted sh :=
  (classify_hdrAccepted_iff o proposer bs sh).symm

/-- **Completeness of the data classification** (and its converse) -/
theorem genuine_data_accepted (o : Oracle) (proposer bs : Bytes) (sd : SignedData) :
    GenuineDataBlob o proposer bs sd ↔ classify o proposer bs = .dataAccepted sd := by
  rw [classify_dataAccepted_iff, classifyData_accepted_iff]
  constructor
  · rintro ⟨h1, h2, h3, h4, h5⟩
    refine ⟨?_, h5, headerStage_not_fromProtoErr_of_data o bs sd h1 h2, h1, h2, h3, h4⟩
    intro he
    subst he
    simp [SignedData.decode, decFields, decFieldsAux, getMsg, getRep] at h1
    have : sd.data = {} := by rw [← h1]
    rw [this] at h2; exact h2 rfl
  · rintro ⟨_, h5, _, h1, h2, h3, h4⟩
    exact ⟨h1, h2, h3, h4, h5⟩

/-- what the proposer's encoder produces is genuine: any well-formed (sizes in the Go types' ranges) signed
header with a parsable key that passes the basic validation and names the proposer -/
theorem encoded_header_is_genuine (o : Oracle) (proposer : Bytes) (sh : SignedHeader) (hw : sh.WF)
    (hok : o.keyOk = true) (hv : validateBasicWire o sh = true) (hp : sh.header.proposerAddress = proposer) :
    GenuineHeaderBlob o proposer sh.encode sh :=
  (genuine_header_accepted _ _ _ _).2 (classify_encode_header o proposer sh hw hok hv hp)
example : GenuineHeaderBlob okO demoAddr demoHdr.encode demoHdr :=
  encoded_header_is_genuine _ _ _ (by decide +kernel) rfl (by decide +kernel) rfl

/-- likewise for signed data with transactions and metadata -/
theorem encoded_data_is_genuine (o : Oracle) (proposer : Bytes) (sd : SignedData) (hw : sd.WF)
    (hok : o.keyOk = true) (ht : sd.data.txs ≠ []) (hm : sd.data.metadata.isSome = true)
    (hv : validSignedData o proposer sd = true) :
    GenuineDataBlob o proposer sd.encode sd :=
  (genuine_data_accepted _ _ _ _).2 (classify_encode_data o proposer sd hw hok ht hm hv)
example : GenuineDataBlob okO demoAddr demoDat.encode demoDat :=
  encoded_data_is_genuine _ _ _ (by decide +kernel) rfl (by decide) rfl (by decide +kernel)

/-- (4)+(6) for one height: a genuine header among the blobs is marked with the DA height and, unless already
seen, handed to sync with that height -/
theorem genuine_header_handed_off (p : Bytes) (n : RNode) (da : Nat) (bs : List (Bytes × Oracle)) (evs : List Event)
    (b : Bytes) (o : Oracle) (sh : SignedHeader) (hb : (b, o) ∈ bs) (hg : GenuineHeaderBlob o p b sh) :
    (sh.header.hash, da) ∈ (handleBlobs p n da bs evs).1.hMarks ∧
    (sh.header.hash ∉ n.seenH → Event.hdr sh da ∈ (handleBlobs p n da bs evs).2) := by
  have hc := (genuine_header_accepted _ _ _ _).1 hg
  rw [handoff_exact]
  refine ⟨?_, fun hns => ?_⟩
  · exact List.mem_append.mpr (Or.inl (List.mem_reverse.mpr
      (List.mem_filterMap.mpr ⟨(b, o), hb, by simp [hMarkOf, hc]⟩)))
  · exact List.mem_append.mpr (Or.inr (List.mem_filterMap.mpr ⟨(b, o), hb, by simp [eventOf, hc, hns]⟩))

theorem genuine_data_handed_off (p : Bytes) (n : RNode) (da : Nat) (bs : List (Bytes × Oracle)) (evs : List Event)
    (b : Bytes) (o : Oracle) (sd : SignedData) (hb : (b, o) ∈ bs) (hg : GenuineDataBlob o p b sd) :
    (sd.data.daCommitment, da) ∈ (handleBlobs p n da bs evs).1.dMarks ∧
    (sd.data.daCommitment ∉ n.seenD → Event.dat sd da ∈ (handleBlobs p n da bs evs).2) := by
  have hc := (genuine_data_accepted _ _ _ _).1 hg
  rw [handoff_exact]
  refine ⟨?_, fun hns => ?_⟩
  · exact List.mem_append.mpr (Or.inl (List.mem_reverse.mpr
      (List.mem_filterMap.mpr ⟨(b, o), hb, by simp [dMarkOf, hc]⟩)))
  · exact List.mem_append.mpr (Or.inr (List.mem_filterMap.mpr ⟨(b, o), hb, by simp [eventOf, hc, hns]⟩))

/-- **Every genuine header at a passed height reaches sync**: over a whole scan, for every height the trace
reports as passed — provided the DA layer did not answer "not found" for a height that holds blobs — every
genuine header blob placed at that height is marked DA-included at that height and, unless its hash was
already seen, its event with that DA height is in the scan's output. -/
theorem genuine_header_at_passed_height_reaches_sync (p : Bytes) (fuel : Nat) (n : RNode) (v : DAView)
    (h k : Nat) (b : Bytes) (o : Oracle) (sh : SignedHeader)
    (hpass : (h, k, true) ∈ (scan p fuel n v [] []).2.2.2) (hnf : Fetch.notFound ∉ v.scriptAt h)
    (hb : (b, o) ∈ v.blobsAt h) (hg : GenuineHeaderBlob o p b sh) :
    (sh.header.hash, h) ∈ (scan p fuel n v [] []).1.hMarks ∧
    (sh.header.hash ∉ n.seenH → Event.hdr sh h ∈ (scan p fuel n v [] []).2.2.1) := by
  have hc := (genuine_header_accepted _ _ _ _).1 hg
  obtain ⟨e1, e2, _⟩ := scan_handoff p fuel n v h k n.seenH n.seenD rfl rfl hpass hnf
  exact ⟨e2 _ (List.mem_filterMap.mpr ⟨(b, o), hb, by simp [hMarkOf, hc]⟩),
    fun hns => e1 _ (List.mem_filterMap.mpr ⟨(b, o), hb, by simp [eventOf, hc, hns]⟩)⟩
example : (demoHdr.header.hash, 1) ∈ (scan demoAddr 9 { daHeight := 1 } demoView [] []).1.hMarks :=
  (genuine_header_at_passed_height_reaches_sync demoAddr 9 { daHeight := 1 } demoView 1 2 demoHdr.encode okO demoHdr
    (by decide +kernel) (by decide) (by simp [demoView, DAView.blobsAt])
    (encoded_header_is_genuine _ _ _ (by decide +kernel) rfl (by decide +kernel) rfl)).1

/-- **Nothing else reaches sync**: every event a scan emits is the one event (`eventOf`) some blob placed at a
height the trace reports as passed owes, and it carries that DA height. -/
theorem only_owed_events_reach_sync (p : Bytes) (fuel : Nat) (n : RNode) (v : DAView) :
    ∀ ev ∈ (scan p fuel n v [] []).2.2.1, ∃ h k, (h, k, true) ∈ (scan p fuel n v [] []).2.2.2 ∧
      ev ∈ (v.blobsAt h).filterMap (eventOf p n.seenH n.seenD h) :=
  scan_events_sound p fuel n v n.seenH n.seenD rfl rfl
example : (scan demoAddr 9 { daHeight := 1 } demoView [] []).2.2.1.length = 2 := by decide +kernel

/-- **Every genuine signed-data blob at a passed height reaches sync** (same, keyed by the commitment; a data
blob whose commitment is already in `seenD` — e.g. one repeating an earlier block's tx list — is only marked:
the inherited exception recorded under C02) -/
theorem genuine_data_at_passed_height_reaches_sync (p : Bytes) (fuel : Nat) (n : RNode) (v : DAView)
    (h k : Nat) (b : Bytes) (o : Oracle) (sd : SignedData)
    (hpass : (h, k, true) ∈ (scan p fuel n v [] []).2.2.2) (hnf : Fetch.notFound ∉ v.scriptAt h)
    (hb : (b, o) ∈ v.blobsAt h) (hg : GenuineDataBlob o p b sd) :
    (sd.data.daCommitment, h) ∈ (scan p fuel n v [] []).1.dMarks ∧
    (sd.data.daCommitment ∉ n.seenD → Event.dat sd h ∈ (scan p fuel n v [] []).2.2.1) := by
  have hc := (genuine_data_accepted _ _ _ _).1 hg
  obtain ⟨e1, _, e3⟩ := scan_handoff p fuel n v h k n.seenH n.seenD rfl rfl hpass hnf
  exact ⟨e3 _ (List.mem_filterMap.mpr ⟨(b, o), hb, by simp [dMarkOf, hc]⟩),
    fun hns => e1 _ (List.mem_filterMap.mpr ⟨(b, o), hb, by simp [eventOf, hc, hns]⟩)⟩
example : (demoDat.data.daCommitment, 2) ∈ (scan demoAddr 9 { daHeight := 1 } demoView [] []).1.dMarks :=
  (genuine_data_at_passed_height_reaches_sync demoAddr 9 { daHeight := 1 } demoView 2 2 demoDat.encode okO demoDat
    (by decide +kernel) (by decide) (by simp [demoView, DAView.blobsAt])
    (encoded_data_is_genuine _ _ _ (by decide +kernel) rfl (by decide) rfl (by decide +kernel))).1

end Spec.C09
