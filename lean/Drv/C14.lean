import Drv.Util
import Drv.C12
import Model.Store

/-! Driver for the `store` stream (C14): the operations of `pkg/store` on the model `KV`, with the
log of atomic writes since the last (re)start so that a crash can cut it at any write boundary. -/
namespace Drv.C14
open Store

structure St where
  started : Bool := false
  badger : Bool := false
  /-- durable image at the last (re)start -/
  base : KV := []
  /-- atomic writes issued since then, in order -/
  log : List WriteSet := []
  /-- `applyAll base log` -/
  kv : KV := []
  /-- read faults armed by the last `fault` op for the next store call: `(skip, n)` -/
  pend : Nat × Nat := (0, 0)
  deriving Inhabited

def hx (b : Bytes) : String := Bytes.toHexTok b

/-- the first four bytes of `sha256 value` (the written values are part of the observation) -/
def valTag (v : Bytes) : String := hx ((sha256 v).take 4)

def describeW : W → String
  | .put k v => "put:" ++ k ++ "=" ++ valTag v
  | .del k => "del:" ++ k

def describeWS (ws : WriteSet) : String :=
  String.intercalate "," ((ws.map describeW).mergeSort (fun a b => !(b < a)))

def describe (wss : List WriteSet) : String :=
  if wss.isEmpty then "-" else String.intercalate ";" (wss.map describeWS)

def commit (s : St) (wss : List WriteSet) : St :=
  { s with log := s.log ++ wss, kv := applyAll s.kv wss }

def u64? (o : Op) (k : String) : Option Nat :=
  match o.nat? k with
  | some n => if n < 2 ^ 64 then some n else none
  | none => none

def keyOk : Bytes → Bool := fun _ => true

def showBlk (r : Except Err (Wire.SignedHeader × Wire.Data)) : String :=
  match r with
  | .ok (sh, d) => s!"ok hdr={hx sh.encode} data={hx d.encode}"
  | .error e => e.toString

def showSig (r : Except Err Bytes) : String :=
  match r with
  | .ok b => s!"ok sig={hx b}"
  | .error e => e.toString

def stateOfOp (o : Op) : State :=
  { version := { block := o.nat "vb", app := o.nat "va" },
    chainId := (Wire.ofUtf8? (o.bytes "cid")).getD "", initialHeight := o.nat "ih",
    lastBlockHeight := o.nat "lbh", lastBlockTimeSec := o.nat "ts",
    lastBlockTimeNanos := o.nat "tn" % 1000000000, daHeight := o.nat "da",
    lastResultsHash := o.bytes "lrh", appHash := o.bytes "ah" }

def showState (s : State) : String :=
  s!"vb={s.version.block} va={s.version.app} cid={hx (Wire.utf8 s.chainId)} ih={s.initialHeight} lbh={s.lastBlockHeight} ts={s.lastBlockTimeSec} tn={s.lastBlockTimeNanos} da={s.daHeight} lrh={hx s.lastResultsHash} ah={hx s.appHash}"

def metaKeyOfOp (o : Op) : Option String := (o.bytes? "k").bind Wire.ofUtf8?

/-- the operations on the store, the next call's reads faulted as `f` says -/
def stepCall (f : Faults) (s : St) (o : Op) : St × String :=
  match o.verb with
  | "save" =>
    let sh : Wire.SignedHeader :=
      { header := Drv.C12.headerOfOp o, signature := o.bytes "hsig", signer := Drv.C12.signerOfOp o }
    match saveBlockDataF keyOk f s.kv sh (Drv.C12.dataOfOp o) (o.bytes "sig") with
    | .ok wss => (commit s wss, s!"ok hash={hx sh.header.hash} ws={describe wss}")
    | .error e => (s, e.toString)
  | "get" =>
    match u64? o "at" with
    | some h => (s, showBlk (getBlockDataF keyOk f 0 s.kv h))
    | none => (s, "bad-op")
  | "geth" =>
    match u64? o "at" with
    | some h =>
      (s, match getHeaderF keyOk f 0 s.kv h with
          | .ok sh => s!"ok hdr={hx sh.encode}"
          | .error e => e.toString)
    | none => (s, "bad-op")
  | "sig" =>
    match u64? o "at" with
    | some h => (s, showSig (getSignatureF f 0 s.kv h))
    | none => (s, "bad-op")
  | "getbyhash" =>
    match o.bytes? "x" with
    | some x => (s, showBlk (getBlockByHashF keyOk f s.kv x))
    | none => (s, "bad-op")
  | "sigbyhash" =>
    match o.bytes? "x" with
    | some x => (s, showSig (getSignatureByHashF f s.kv x))
    | none => (s, "bad-op")
  | "height" =>
    (s, match heightF f s.kv with
        | .ok h => s!"ok h={h}"
        | .error e => e.toString)
  | "setheight" =>
    match u64? o "to" with
    | some h =>
      match setHeightF f s.kv h with
      | .ok wss => (commit s wss, s!"ok ws={describe wss}")
      | .error e => (s, e.toString)
    | none => (s, "bad-op")
  | "state" =>
    let wss := updateState (stateOfOp o)
    (commit s wss, s!"ok ws={describe wss}")
  | "getstate" =>
    (s, match getStateF f s.kv with
        | .ok st => "ok " ++ showState st
        | .error e => e.toString)
  | "setmeta" =>
    match metaKeyOfOp o with
    | some k =>
      let wss := setMetadata k (o.bytes "v")
      (commit s wss, s!"ok ws={describe wss}")
    | none => (s, "bad-op")
  | "getmeta" =>
    match metaKeyOfOp o with
    | some k =>
      (s, match getMetadataF f s.kv k with
          | .ok v => s!"ok v={hx v}"
          | .error e => e.toString)
    | none => (s, "bad-op")
  | "crash" =>
    match u64? o "back" with
    | some back =>
      if s.badger then (s, s!"ok n={s.log.length}")
      else
        let keep := s.log.length - back
        let kv := applyPrefix keep s.log s.base
        ({ s with base := kv, log := [], kv := kv }, s!"ok n={keep}")
    | none => (s, "bad-op")
  | "reopen" => ({ s with kv := reopen s.kv }, "ok")
  | "bigsave" =>
    -- exploration on real badger in a scratch database of the harness: the scenario's store is not touched
    match u64? o "hdr", u64? o "data", u64? o "sig" with
    | some _, some _, some _ => (s, "ok")
    | _, _, _ => (s, "bad-op")
  | _ => (s, "bad-op")

/-- `fault get=<n> [skip=<k>]` arms read faults for the NEXT op line only (log backend); every other op runs
with the armed faults and drops what is left of them -/
def stepOp (s : St) (o : Op) : St × String :=
  if o.verb = "fault" then
    match u64? o "get" with
    | some n => if s.badger then (s, "bad-op") else ({ s with pend := ((u64? o "skip").getD 0, n) }, "ok")
    | none => (s, "bad-op")
  else
    stepCall (Faults.window s.pend.1 s.pend.2) { s with pend := (0, 0) } o

def step (s : St) (line : String) : St × String :=
  let o := parseOp line
  if o.verb = "reset" then
    let b := o.str "backend"
    if b = "" ∨ b = "log" ∨ b = "badger" then
      ({ started := true, badger := b = "badger" }, "ok")
    else ({}, "bad-op")
  else if !s.started then (s, "bad-op")
  else stepOp s o

end Drv.C14
