import Drv.Util
import Model.Producer
import Model.CacheDir

/-! Driver for the producer streams (C01, C04, C08, C11): real `publishBlockInternal` steps,
crashes between atomic writes and restarts vs `Producer.publish` / `Producer.start`; clean stops whose cache save
is cut short by a crash vs `CacheDir.restartAfterSaveCrash`.  `step` takes the facts about `pkg/cache`
(`CacheDir.Facts`); the executables pass `CacheDir.tree`, regenerated from the compiled code. -/
namespace Drv.Prod
open Wire Chain _root_.Producer

def h8 (b : Bytes) : String := Bytes.toHexTok b

def sigClass (hdr : Header) (s : Sig) : String :=
  match s with
  | .none => "empty"
  | s => if verify 1 (payload hdr) s then "valid" else "invalid"

def showSH (sh : SHeader) : String :=
  let hd := sh.hdr
  let signer := match sh.signer.key with | none => "none" | some 1 => "k1" | some _ => "other"
  s!"h={hd.height} t={hd.time} v={hd.version.block}.{hd.version.app} cid={hd.chainId} lhh={h8 hd.lastHeaderHash} dh={h8 hd.dataHash} ah={h8 hd.appHash} pa={h8 hd.proposerAddress} vh={h8 hd.validatorHash} ch={h8 hd.consensusHash} hash={h8 hd.hash} sig={sigClass hd sh.sig} signer={signer}/{h8 sh.signer.addr}"

def showD (d : Data) : String :=
  (match d.metadata with
   | some m => s!"meta={m.chainId}/{m.height}/{m.time}/{h8 m.lastDataHash}"
   | none => "meta=none") ++ s!" txs={hexList d.txs}"

def showBlock (s : Store) (h : Nat) : String :=
  match s.getBlock h with
  | none => "none"
  | some b => s!"{showSH b.sh} {showD b.data} ssig={sigClass b.sh.hdr b.savedSig}"

def showState (s : State) : String := s!"{s.lastHeight}/{s.lastTime}/{h8 s.appHash}/da{s.daHeight}"

def showW : SW → String
  | .saveBlock h _ => s!"blk:{h}"
  | .setHeight h => s!"height:{h}"
  | .updateState _ => "state"
  | .setMeta k _ => s!"meta:{k}"

def showWs (ws : List SW) : String :=
  if ws.isEmpty then "-" else String.intercalate "," (ws.map showW)

def outClass : Outcome → String
  | .ok | .refused | .noBatch | .seqErr => "nil"
  | .errTime => "err:time"
  | .errExec => "err:exec"
  | .errLastBlock => "err:lastblock"
  | .errSigner => "err:signer"
  | .errValidate e =>
    match e with
    | .time => "err:validate:time"
    | .height => "err:validate:height"
    | .appHash => "err:validate:appHash"
    | .chainId => "err:validate:chainId"
    | .dataMismatch => "err:validate:dataMismatch"
    | .dataHash => "err:validate:dataHash"
    | _ => "err:validate:header"

structure St where
  cfg : Cfg := { chainId := "vchain", initialHeight := 1, genesisTime := 0, proposerAddr := [], key := 1, signerAddr := [] }
  node : Node := {}
  before : Store := {}       -- durable image before the last step
  ws : List SW := []         -- atomic writes of the last step
  alive : Bool := false
  cache : List CacheDir.OldFile := []   -- what the cache directory holds (per file of `CacheDir.fileNames`)
  deriving Inhabited

def observe (n : Node) (cls : String) (ws : List SW) (exec : String) : String :=
  let h := n.store.height
  let disk := match n.store.state with | some s => showState s | none => "none"
  let lbd := h8 ((n.store.getMeta lastBatchDataKey).getD [])
  s!"out={cls} height={h} disk={disk} mem={showState n.lastState} w={showWs ws} exec={exec} lbd={lbd} head=[{showBlock n.store h}] next=[{showBlock n.store (h+1)}]"

/-- a fresh cache directory -/
def noCache : List CacheDir.OldFile := CacheDir.fileNames.map fun _ => .absent

def doStart (s : St) (disk : Store) (r : Except CacheDir.StartErr' (Node × List SW)) : St × String :=
  match r with
  | .error e =>
    let cls := match e with
      | .store .genesisAboveState => "err:genesisAboveState"
      | .store .badWatermark => "err:badWatermark"
      | .loadCache => "err:cache"
    ({ s with alive := false }, s!"start {cls}")
  | .ok (n, ws) =>
    ({ s with node := n, before := disk, ws := ws, alive := true }, "start " ++ observe n "ok" ws "-")

/-- `crash … sk=<n> sa=<addr>` / `restart … sk=<n> sa=<addr>`: the operator restarts the node with signing key `n`
(address `sa`) -/
def swapKey (c : Cfg) (o : Op) : Cfg :=
  if o.nat "sk" = 0 then c else { c with key := o.nat "sk", signerAddr := o.bytes "sa" }

def step (f : CacheDir.Facts) (s : St) (line : String) : St × String :=
  let o := parseOp line
  match o.verb with
  | "reset" =>
    let pa := o.bytes "pa"
    -- `sk=<n> sa=<addr>`: the node runs with signing key `n` whose address is `sa` (default: the genesis proposer's
    -- key 1 and address `pa`); a foreign signer is `sk=2 sa=<address of key 2>`
    let sk := if o.nat "sk" = 0 then 1 else o.nat "sk"
    let sa := if o.nat "sk" = 0 then pa else o.bytes "sa"
    let cfg : Cfg := { chainId := "vchain", initialHeight := o.nat "ih", genesisTime := o.nat "gt",
                       proposerAddr := pa, key := sk, signerAddr := sa, maxPending := o.nat "maxp" }
    doStart { cfg := cfg, cache := noCache } {} (CacheDir.restartAfterSaveCrash f cfg {} noCache [])
  | "step" =>
    if !s.alive then (s, "dead") else
    let resp? : Option SeqResp :=
      match o.str "resp" with
      | "err" => some .err
      | "absent" => some .absent
      | "batch" => some (.batch (o.list "txs") (o.nat "ts") (o.list "bd"))
      | _ => none
    match resp? with
    | none => (s, "bad-op")
    | some resp =>
      let ex := if o.str "exec" = "fail" then ExecResp.fail else ExecResp.ok
      let before := s.node.store
      let (n', ws, out) := publishB s.cfg s.node resp ex
      let ran := match out with | .ok => true | .errValidate _ => true | _ => false
      let exec :=
        if ran then
          match n'.store.getBlock (before.height + 1) with
          | some b => s!"{b.sh.hdr.height}:{b.data.txs.length}:{h8 s.node.lastState.appHash}"
          | none => "-"
        else "-"
      ({ s with node := n', before := before, ws := ws }, observe n' (outClass out) ws exec)
  | "crash" =>
    if !s.alive then (s, "dead") else
    -- a crash outside `SaveCache` leaves the cache directory as the last clean stop left it (complete files of
    -- an older generation, possibly a mixed set after a cut save, or nothing): no save has begun on any file
    let disk := s.before.applyPrefix (o.nat "keep") s.ws
    let pts : List CacheDir.SavePoint := List.replicate CacheDir.fileNames.length .before
    let imgs := CacheDir.crashImages f s.cache pts
    let cfg := swapKey s.cfg o
    doStart { s with cfg := cfg, cache := imgs.map (·.old) } disk (CacheDir.restartAfterSaveCrash f cfg disk s.cache pts)
  | "restart" =>
    if !s.alive then (s, "dead") else
    -- clean stop: every write is durable and the caches are saved; `cut=<file> frac=<n>`: a crash during the save
    -- of that file (after `n` % of its encoding), the files before it are saved, the files after it untouched
    let disk := s.before.applyPrefix s.ws.length s.ws
    let n := CacheDir.fileNames.length
    let pts : List CacheDir.SavePoint :=
      match CacheDir.fileNames.idxOf? (o.str "cut") with
      | some i => CacheDir.seqPoints n i (100 ≤ o.nat "frac")
      | none => List.replicate n .after
    let imgs := CacheDir.crashImages f s.cache pts
    let cfg := swapKey s.cfg o
    doStart { s with cfg := cfg, cache := imgs.map (·.old) } disk (CacheDir.restartAfterSaveCrash f cfg disk s.cache pts)
  | _ => (s, "bad-op")

end Drv.Prod
