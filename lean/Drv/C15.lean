import Drv.Util
import Model.KVExec

/-! Driver for the `kvexec` stream (C15): two executor instances.  `a` (the reference) only executes
blocks; `b` additionally receives finalize / inject / gettxs / init / reopen / reexec / get.
A `final` line also shows the recorded height (`GetStoreValue("/finalizedHeight")`), which is a reserved
entry: stored, never part of the root. -/
namespace Drv.C15
open KVExec

structure D where
  a : St := {}
  b : St := {}
  /-- the block of the most recent `exec` line (what `reexec` repeats on `b`) -/
  last : List Bytes := []

def hx (b : Bytes) : String := Bytes.toHexTok b

def showErr : Err → String
  | .malformed => "err:malformed"
  | .emptyKey => "err:emptykey"
  | .reserved => "err:reserved"
  | .zeroHeight => "err:zero"
  | .genesisCorrupt => "err:genesis"

def showRes : Res → String
  | .ok r => hx r
  | .err e => showErr e

def rootB (d : D) : String := s!"root={hx (root d.b.store)}"

def injectN : Nat → St → Bytes → St
  | 0, s, _ => s
  | n + 1, s, tx => injectN n (injectTx s tx) tx

def step (d : D) (line : String) : D × String :=
  let o := parseOp line
  match o.verb with
  | "reset" => ({}, "ok")
  | "exec" =>
    let txs := o.list "txs"
    let (a', ra) := executeTxs d.a txs
    let (b', rb) := executeTxs d.b txs
    ({ a := a', b := b', last := txs }, s!"a={showRes ra} b={showRes rb}")
  | "reexec" =>
    let (b', rb) := executeTxs d.b d.last
    ({ d with b := b' }, s!"b={showRes rb}")
  | "final" =>
    match o.nat? "h" with
    | none => (d, "bad-op")
    | some h =>
      if h ≥ 2 ^ 64 then (d, "bad-op") else
      let (b', e) := setFinal d.b h
      let d' := { d with b := b' }
      let fin := match getStoreValue d'.b finalKey with | some v => hx v | none => "none"
      (d', (match e with | none => "ok" | some e => showErr e) ++ s!" fin={fin} " ++ rootB d')
  | "inject" =>
    match (match o.get? "n" with | none => some 1 | some t => t.toNat?) with
    | none => (d, "bad-op")
    | some n =>
      if n > 20000 then (d, "bad-op") else
      let d' := { d with b := injectN n d.b (o.bytes "tx") }
      (d', "ok " ++ rootB d')
  | "gettxs" =>
    let (b', txs) := getTxs d.b
    let d' := { d with b := b' }
    (d', s!"n={txs.length} txs={hexList txs} {rootB d'}")
  | "init" =>
    let (b', r) := initChain d.b
    let d' := { d with b := b' }
    (d', (match r with | .ok g => s!"genesis={hx g} gas={gasConst}" | .err e => showErr e) ++ " " ++ rootB d')
  | "reopen" =>
    let d' := { d with b := reopen d.b }
    (d', "ok " ++ rootB d')
  | "get" =>
    match o.bytes? "key" with
    | none => (d, "bad-op")
    | some k =>
      (d, match getStoreValue d.b k with | some v => s!"val={hx v}" | none => "none")
  | _ => (d, "bad-op")

end Drv.C15
