import Drv.Util
import Model.Config
import Model.ConfigGenesis
import Gen.C18

/-! Driver for the `config` stream (C18): the model's `resolve` over the table regenerated from the
compiled code, on the same op lines as the real `config.Load`. State = what earlier loads left in
memory shared with `DefaultConfig`.  The model's `Load` is a function of (command line, file,
that state) only: which command OBJECT a load goes through (`cmd=<n>`, `newcmd=1` on the op lines)
is deliberately ignored, so a loader whose result depends on an earlier load through the same
object differs from the model. -/
namespace Drv.C18
open Config

def table : Table := Table.ofRows Gen.C18.fields Gen.C18.flags

def hexS (s : String) : String := Bytes.toHexTok (Bytes.ofString s)
def unhexS (h : String) : String :=
  match Bytes.ofHex h with
  | some b => (String.fromUTF8? (ByteArray.mk b.toArray)).getD "<bad>"
  | none => "<bad>"

/-- `k:hex,k:hex` or `-`; keys lower-cased when `lower` (viper lower-cases the keys of the file) -/
def parsePairs (s : String) (lower : Bool) : Layer :=
  if s = "-" || s = "" then [] else
  (s.splitOn ",").filterMap fun p =>
    match p.splitOn ":" with
    | [k, v] => some (if lower then k.toLower else k, unhexS v)
    | _ => none

/-- fields that are options (printed in the `cfg=` list) -/
def isOption (f : Field) : Bool := !(f.ms = "-" && f.yaml = "-")

def showCfg (D args file : Layer) : String :=
  String.intercalate "," ((table.fields.filter isOption).map fun f => hexS (resolve table D args file f).1)

def parseInt? (s : String) : Option Int := s.toInt?

/-- `t=<unix>.<nsec>|zero off=<minutes> [offs=<extra seconds>]`: `time.Unix(…).In(FixedZone("op", off*60+offs))` -/
def genesisOfOp (o : Op) : Option GenesisFile.Genesis := do
  let ts := o.str "t"
  let (u, n) ← (if ts = "zero" then some (GenesisFile.zeroUnix, 0) else
    match ts.splitOn "." with
    | [a, b] => do let u ← parseInt? a; let n ← b.toNat?; pure (u, n)
    | _ => none)
  let off ← parseInt? (o.str "off")
  let offs ← (match o.get? "offs" with | none => some (0 : Int) | some s => parseInt? s)
  let pa ← (if o.str "pa" = "nil" then some none else (Bytes.ofHex (o.str "pa")).map some)
  let cid ← Bytes.ofHex (o.str "cid")
  let ih ← o.nat? "ih"
  pure { chainId := cid, time := GenesisFile.GoTime.ofUnix u n (off * 60 + offs) "op", initialHeight := ih, proposer := pa }

def showGenesis (g : GenesisFile.Genesis) : String :=
  let pa := match g.proposer with | none => "nil" | some b => Bytes.toHexTok b
  s!"cid={Bytes.toHexTok g.chainId} ih={g.initialHeight} t={g.time.unix}.{g.time.nsec} offs={g.time.offSec} pa={pa}"

def showLoad : Except GenesisFile.LoadErr GenesisFile.Genesis → String
  | .ok g => "ok " ++ showGenesis g
  | .error e => "err:" ++ e.toString

/-- driver state: what earlier loads left in memory shared with `DefaultConfig`, and the genesis
files the scenario wrote (by path number) -/
structure St where
  D : Layer := []
  disk : GenesisFile.Disk := []

def init : St := {}

/-- `at=<n>`: `none` = no such key, `some none` = malformed -/
def slotOf (o : Op) : Option (Option Nat) := (o.get? "at").map String.toNat?

def stepCfg (D : Layer) (o : Op) : Layer × String :=
  match o.verb with
  | "reset" => ([], "ok")
  | "load" | "loadfromviper" =>   -- `config.Load` / `config.LoadFromViper`: the same function of (command line, file, defaults)
    let args := parsePairs (o.str "fl") false
    let file := parsePairs (o.str "fi") true
    if !argsOK table args then (D, "err:flag-parse") else
    let foc := match table.fields.find? (fun f => f.go = o.str "f" && isOption f) with
      | some f => let r := resolve table D args file f; s!"v={hexS r.1} src={r.2.toString}"
      | none => "v=- src=none"
    (nextDefaults table D args file, s!"ok {foc} cfg={showCfg D args file}")
  | "flagreach" =>
    match parsePairs (o.str "fl") false with
    | [(n, _)] =>
      match table.flags.find? (fun fl => fl.name = n) with
      | some fl =>
        let r := reached table fl
        (D, "ok reached=" ++ (if r.isEmpty then "-" else String.intercalate "," r))
      | none => (D, "err:flag-parse")
    | _ => (D, "bad-op")
  | "save" | "savex" =>   -- (`savex`: old name for saves of values the YAML pair does not preserve; same op)
    -- `fl=`: the command line of the command the configuration is loaded back through (default: none)
    let args := parsePairs (o.str "fl") false
    if !argsOK table args then (D, "err:flag-parse") else
    let set := parsePairs (o.str "set") false
    let c : String → String := fun go =>
      match set.lookup go with
      | some v => v
      | none => ((table.fields.find? (fun f => f.go = go)).map (·.dflt)).getD ""
    -- value level: what the YAML writer/reader pair makes of every string option (`Model/ConfigYaml.lean`)
    match loadSaved table args c id with
    | .unmodelled => (D, "unmodelled")
    | .error => (D, "err:load")
    | .ok file => (nextDefaults table D args file, s!"ok cfg={showCfg D args file}")
  | "saveprobe" =>   -- a string value OUTSIDE the validated domain of the YAML model: no prediction, the real outcome is only recorded
    let set := parsePairs (o.str "set") false
    let c : String → String := fun go =>
      match set.lookup go with
      | some v => v
      | none => ((table.fields.find? (fun f => f.go = go)).map (·.dflt)).getD ""
    match saveYaml table c with
    | .unmodelled => (D, "probed")
    | _ => (D, "probed:modelled-value")   -- the generator left the unmodelled region: visible as a difference
  | "loadx" => (D, "checked")   -- values not of the option's type / malformed files: not predicted
  | _ => (D, "bad-op")

def step (s : St) (line : String) : St × String :=
  let o := parseOp line
  match o.verb with
  | "reset" => ({}, "ok")
  | "genesis" =>
    match genesisOfOp o, slotOf o with
    | none, _ => (s, "bad-op")
    | _, some none => (s, "bad-op")
    | some g, slot =>
      let v := match GenesisFile.validate g with | none => "ok" | some r => "err:" ++ r.toString
      -- no `at`: a fresh path for this op only
      let p := match slot with | some (some p) => p + 1 | _ => 0
      match GenesisFile.saveAt s.disk p g with
      | .error e => (s, s!"val={v} file=err:{e.toString} load=err:save")   -- nothing written, nothing loaded
      | .ok disk =>
        let file := match disk.read p with | some bs => Bytes.toHexTok bs | none => "-"
        let l := showLoad (GenesisFile.loadAt disk p)
        ({ s with disk := if p = 0 then s.disk else disk }, s!"val={v} file={file} load={l}")
  | "gfile" =>   -- raw bytes written to the path (`at=<n>`, else a fresh one), then `LoadGenesis`
    match Bytes.ofHex (o.str "hex"), slotOf o with
    | none, _ => (s, "bad-op")
    | _, some none => (s, "bad-op")
    | some bs, slot =>
      let p := match slot with | some (some p) => p + 1 | _ => 0
      let disk := GenesisFile.writeTrunc s.disk p bs
      ({ s with disk := if p = 0 then s.disk else disk }, "load=" ++ showLoad (GenesisFile.loadAt disk p))
  | "gload" =>
    match slotOf o with
    | some (some p) => (s, "load=" ++ showLoad (GenesisFile.loadAt s.disk (p + 1)))
    | _ => (s, "bad-op")
  | _ =>
    -- `cmd=<n>` / `at=<n>` (which command object / which home) do not matter to the model, but a
    -- malformed number is a malformed op on both sides
    let malformed := fun k => (o.get? k).map String.toNat? == some none
    if ((o.verb = "load" || o.verb = "loadfromviper") && malformed "cmd") ||
       ((o.verb = "save" || o.verb = "savex") && (malformed "cmd" || malformed "at")) then (s, "bad-op") else
    let (D, out) := stepCfg s.D o
    ({ s with D := D }, out)

end Drv.C18
