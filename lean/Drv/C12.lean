import Drv.Util
import Model.Wire
import Model.WireState
import Model.Producer

/-! Driver for the `wire` stream (C12): encode typed values, decode byte strings. -/
namespace Drv.C12
open Wire

def hx (b : Bytes) : String := Bytes.toHexTok b

/-! ### nil vs empty: `ne=<names>` lists the EMPTY slices of the Go value that are not nil, `nt=<indices>` the
(empty) transactions that are nil; see `harness/streams/c12/c12.go` (`neSet`, `gb`, `dataOfOp`). -/

def neSet (o : Op) : List String := ((o.str "ne").splitOn ",").filter (fun k => k ≠ "" ∧ k ≠ "-")

/-- the Go slice of field `k` -/
def goField (o : Op) (k : String) : GoSlice :=
  let b := o.bytes k
  if b = [] then (if k ∈ neSet o then some [] else none) else some b

def goTxs (o : Op) : GoTxs :=
  let l := o.list "txs"
  let nt := o.nats "nt"
  if l = [] then (if "txs" ∈ neSet o then some [] else none)
  else some ((l.zipIdx).map fun (t, i) => if t = [] ∧ i ∈ nt then none else some t)

/-- `reflect.DeepEqual` of the slices named `ks` before and after a round trip -/
def deqFields (o : Op) (ks : List String) : Bool := ks.all fun k => (goField o k).rt == goField o k

def headerKeys : List String := ["lhh", "lch", "dh", "ch", "ah", "lrh", "pa", "vh"]

/-- signer: without a key `FromProto` leaves the zero `Signer{}`; with one the address is a `bytes` field -/
def deqSigner (o : Op) : Bool :=
  if o.bytes "pk" = [] then goField o "sa" == none else deqFields o ["sa"]

def deqData (o : Op) : Bool :=
  (if o.bool "meta" then deqFields o ["mldh"] else true) && (goTxs o).rt == goTxs o

def b01 (b : Bool) : String := if b then "1" else "0"

def headerOfOp (o : Op) : Header :=
  { version := { block := o.nat "vb", app := o.nat "va" }, height := o.nat "h", time := o.nat "t",
    lastHeaderHash := o.bytes "lhh", lastCommitHash := o.bytes "lch", dataHash := o.bytes "dh",
    consensusHash := o.bytes "ch", appHash := o.bytes "ah", lastResultsHash := o.bytes "lrh",
    proposerAddress := o.bytes "pa", validatorHash := o.bytes "vh",
    chainId := (ofUtf8? (o.bytes "cid")).getD "" }

def showHeader (h : Header) : String :=
  s!"vb={h.version.block} va={h.version.app} h={h.height} t={h.time} lhh={hx h.lastHeaderHash} lch={hx h.lastCommitHash} dh={hx h.dataHash} ch={hx h.consensusHash} ah={hx h.appHash} lrh={hx h.lastResultsHash} pa={hx h.proposerAddress} vh={hx h.validatorHash} cid={hx (utf8 h.chainId)}"

def metaOfOp (o : Op) : Metadata :=
  { chainId := (ofUtf8? (o.bytes "mcid")).getD "", height := o.nat "mh", time := o.nat "mt", lastDataHash := o.bytes "mldh" }

def showMeta (m : Metadata) : String :=
  s!"mcid={hx (utf8 m.chainId)} mh={m.height} mt={m.time} mldh={hx m.lastDataHash}"

def dataOfOp (o : Op) : Data :=
  { metadata := if o.bool "meta" then some (metaOfOp o) else none, txs := o.list "txs" }

def showData (d : Data) : String :=
  (match d.metadata with | some m => "meta=1 " ++ showMeta m | none => "meta=0") ++ s!" txs={hexList d.txs}"

def signerOfOp (o : Op) : Signer := { address := o.bytes "sa", pubKey := o.bytes "pk" }
def showSigner (s : Signer) : String := s!"sa={hx s.address} pk={hx s.pubKey}"

def opInt (o : Op) (k : String) : Int := ((o.get? k).bind String.toInt?).getD 0

/-- `time.Unix(ts, tn)`; the seconds of an op are an `int64` -/
def stateOfOp (o : Op) : State :=
  { version := { block := o.nat "vb", app := o.nat "va" }, chainId := o.bytes "cid",
    initialHeight := o.nat "ih", lastBlockHeight := o.nat "lh",
    lastBlockTime := timeUnix (wrapI64 (opInt o "ts")) (opInt o "tn"),
    daHeight := o.nat "da", lastResultsHash := o.bytes "lrh", appHash := o.bytes "ah" }

def showState (s : State) : String :=
  s!"vb={s.version.block} va={s.version.app} cid={hx s.chainId} ih={s.initialHeight} lh={s.lastBlockHeight} ts={s.lastBlockTime.sec} tn={s.lastBlockTime.nsec} da={s.daHeight} lrh={hx s.lastResultsHash} ah={hx s.appHash}"

/-! ### `reuse`: message A decoded into a receiver, a struct copy `c` kept, message B decoded into the same receiver
(`harness/streams/c12/reuse.go`). A pure function has no aliasing: afterwards `c = decode A` and `r = decode B`.
(Until /repo bf7367f `Data.FromProto` filled the `Metadata` struct the receiver already pointed to, so a struct copy of
a `Data` ended up with B's metadata; that was mirrored here and is gone with the repair: every type is pure now.) -/

def sumHeader (h : Header) : String := s!"enc={hx h.encode} hash={hx h.hash}"
def sumSH (sh : SignedHeader) : String := s!"enc={hx sh.encode} hash={hx sh.header.hash}"
def sumMeta (m : Metadata) : String := s!"enc={hx m.encode}"
def sumData (d : Data) : String := s!"enc={hx d.encode} hash={hx d.hash} dac={hx d.daCommitment}"
def sumSD (sd : SignedData) : String := s!"enc={hx sd.encode} hash={hx sd.data.hash} dac={hx sd.data.daCommitment}"
def sumState (s : State) : Option String := s.encode?.map fun b => s!"enc={hx b}"

/-- `after a b` = what the struct copy of `decode A` is once `B` has been decoded into the receiver -/
def reuseObs {α : Type} (da db : Option α) (after : α → α → α) (sum : α → Option String) : String :=
  match da with
  | none => "err-a"
  | some a =>
    match sum a with
    | none => "err-re"
    | some _ =>
      match db with
      | none => "err-b"
      | some b =>
        match sum (after a b), sum b with
        | some c, some r => s!"ok c=[{c}] r=[{r}]"
        | _, _ => "err-re"

def reuseStep (o : Op) : String :=
  let a := o.bytes "a"
  let b := o.bytes "b"
  let ka : Bytes → Bool := fun _ => o.bool "ka"
  let kb : Bytes → Bool := fun _ => o.bool "kb"
  let path := o.str "path"
  let pure {α : Type} : α → α → α := fun x _ => x
  if path ≠ "bin" ∧ path ≠ "proto" then "bad-op" else
  match o.str "ty" with
  | "header" => reuseObs (Header.decode a) (Header.decode b) pure (some ∘ sumHeader)
  | "sh" => reuseObs (SignedHeader.decode ka a) (SignedHeader.decode kb b) pure (some ∘ sumSH)
  | "meta" => reuseObs (Metadata.decode a) (Metadata.decode b) pure (some ∘ sumMeta)
  | "data" => reuseObs (Data.decode a) (Data.decode b) pure (some ∘ sumData)
  | "sd" => reuseObs (SignedData.decode ka a) (SignedData.decode kb b) pure (some ∘ sumSD)
  | "state" => if path = "proto" then reuseObs (State.decode a) (State.decode b) pure sumState else "bad-op"
  | _ => "bad-op"

def step (_ : Unit) (line : String) : Unit × String :=
  let o := parseOp line
  let keyOk : Bytes → Bool := fun _ => o.bool "keyok"
  let out :=
    match o.verb with
    | "reset" => "ok"
    | "enc-header" =>
      let h := headerOfOp o
      let cid := o.bytes "cid"
      match h.marshalGo cid with
      | some b => s!"bytes={hx b} hash={hx (h.hashGo cid)} deq={b01 (deqFields o headerKeys)}"
      | none => s!"err:marshal hash={hx (h.hashGo cid)}"
    | "enc-meta" =>
      match (metaOfOp o).marshalGo (o.bytes "mcid") with
      | some b => s!"bytes={hx b} deq={b01 (deqFields o ["mldh"])}"
      | none => "err:marshal"
    | "enc-data" =>
      let d := dataOfOp o
      let cid := o.bytes "mcid"
      match d.marshalGo cid with
      | .ok b => s!"bytes={hx b} hash={hx (d.hashGo cid)} dac={hx d.daCommitment} deq={b01 (deqData o)}"
      | .error _ => s!"err:marshal hash={hx (d.hashGo cid)} dac={hx d.daCommitment}"
    | "enc-sh" =>
      let sh : SignedHeader := { header := headerOfOp o, signature := o.bytes "sig", signer := signerOfOp o }
      let cid := o.bytes "cid"
      match sh.header.marshalGo cid with
      | some _ =>
        s!"bytes={hx sh.encode} hash={hx sh.header.hash} deq={b01 (deqFields o headerKeys && deqFields o ["sig"] && deqSigner o)}"
      | none => s!"err:marshal hash={hx (sh.header.hashGo cid)}"
    | "enc-sd" =>
      let sd : SignedData := { data := dataOfOp o, signature := o.bytes "sig", signer := signerOfOp o }
      let cid := o.bytes "mcid"
      match sd.data.marshalGo cid with
      | .ok _ =>
        s!"bytes={hx sd.encode} hash={hx sd.data.hash} dac={hx sd.data.daCommitment} deq={b01 (deqData o && deqFields o ["sig"] && deqSigner o)}"
      | .error _ => s!"err:marshal hash={hx (sd.data.hashGo cid)} dac={hx sd.data.daCommitment}"
    | "enc-state" =>
      let s := stateOfOp o
      match s.encode? with
      | some b => s!"bytes={hx b} deq={b01 (deqFields o ["lrh", "ah"] && o.str "loc" != "local")}"
      | none => "err:marshal"
    | "dec-header" =>
      match Header.decode (o.bytes "b") with
      | some h => s!"ok {showHeader h} re={hx h.encode} hash={hx h.hash}"
      | none => "err"
    | "dec-meta" =>
      match Metadata.decode (o.bytes "b") with
      | some m => s!"ok {showMeta m} re={hx m.encode}"
      | none => "err"
    | "dec-data" =>
      match Data.decode (o.bytes "b") with
      | some d => s!"ok {showData d} re={hx d.encode} hash={hx d.hash} dac={hx d.daCommitment}"
      | none => "err"
    | "dec-sh" =>
      match SignedHeader.decode keyOk (o.bytes "b") with
      | some sh => s!"ok {showHeader sh.header} sig={hx sh.signature} {showSigner sh.signer} re={hx sh.encode}"
      | none => "err"
    | "dec-sd" =>
      match SignedData.decode keyOk (o.bytes "b") with
      | some sd => s!"ok {showData sd.data} sig={hx sd.signature} {showSigner sd.signer} re={hx sd.encode} dac={hx sd.data.daCommitment}"
      | none => "err"
    | "dec-state" =>
      match State.decode (o.bytes "b") with
      | some s =>
        (match s.encode? with
         | some re => s!"ok {showState s} re={hx re}"
         | none => "err-re")
      | none => "err"
    -- cache files: gob (Go's standard library) frames the value's own MarshalBinary bytes; what LoadFromDisk hands
    -- back is what the value's UnmarshalBinary makes of them
    | "cache-sh" =>
      let sh : SignedHeader := { header := headerOfOp o, signature := o.bytes "sig", signer := signerOfOp o }
      match sh.header.marshalGo (o.bytes "cid") with
      | none => "err:save"
      | some _ =>
        match SignedHeader.decode keyOk sh.encode with
        | some x => s!"ok {showHeader x.header} sig={hx x.signature} {showSigner x.signer} hash={hx x.header.hash}"
        | none => "err:load"
    | "cache-data" =>
      let d := dataOfOp o
      match d.marshalGo (o.bytes "mcid") with
      | .error _ => "err:save"
      | .ok b =>
        match Data.decode b with
        | some x => s!"ok {showData x} hash={hx x.hash} dac={hx x.daCommitment}"
        | none => "err:load"
    -- mutated / truncated cache files: the gob framing is not modelled; these ops are judged by the monitors of
    -- the stream on the real code (no panic; what is accepted survives save + load)
    | "cache-load" =>
      let kind := o.str "kind"
      if (kind = "sh" ∨ kind = "data") ∧ (o.nat? "file").any (· < 4) then "checked" else "bad-op"
    | "cache-trunc" =>
      let kind := o.str "kind"
      if kind = "sh" then
        (match (headerOfOp o).marshalGo (o.bytes "cid") with | some _ => "checked" | none => "err:save")
      else if kind = "data" then
        (match (dataOfOp o).marshalGo (o.bytes "mcid") with | .ok _ => "checked" | .error _ => "err:save")
      else "bad-op"
    -- run the scenario's ops again in other histories (same process; fresh process, opposite order): judged by the
    -- monitor of the stream; this driver has no state, so its own observations cannot depend on a history
    | "recheck" => "checked"
    -- a cache file of n items of `size` bytes (thorough tier): everything comes back
    | "cache-big" =>
      match o.nat? "n", o.nat? "size" with
      | some n, some size =>
        if n = 0 ∨ n > 4096 ∨ size > 16777216 ∨ n * size > 1073741824 then "bad-op" else s!"ok n={n}"
      | _, _ => "bad-op"
    | "reuse" => reuseStep o
    | "bd-enc" => s!"bytes={hx (Producer.batchDataToBytes (o.list "list"))}"
    | "bd-dec" =>
      match Producer.bytesToBatchData (o.bytes "b") with
      | some l => s!"ok list={hexList l}"
      | none => "err"
    | _ => "bad-op"
  ((), out)

end Drv.C12
