import Drv.Util
import Model.Wire
import Model.Producer

/-! Driver for the `wire` stream (C12): encode typed values, decode byte strings. -/
namespace Drv.C12
open Wire

def hx (b : Bytes) : String := Bytes.toHexTok b

def headerOfOp (o : Op) : Header :=
  { version := { block := o.nat "vb", app := o.nat "va" }, height := o.nat "h", time := o.nat "t",
    lastHeaderHash := o.bytes "lhh", lastCommitHash := o.bytes "lch", dataHash := o.bytes "dh",
    consensusHash := o.bytes "ch", appHash := o.bytes "ah", lastResultsHash := o.bytes "lrh",
    proposerAddress := o.bytes "pa", validatorHash := o.bytes "vh",
    chainId := (ofUtf8? (o.bytes "cid")).getD "" }

def showHeader (h : Header) : String :=
  s!"vb={h.version.block} va={h.version.app} h={h.height} t={h.time} lhh={hx h.lastHeaderHash} lch={hx h.lastCommitHash} dh={hx h.dataHash} ch={hx h.consensusHash} ah={hx h.appHash} lrh={hx h.lastResultsHash} pa={hx h.proposerAddress} vh={hx h.validatorHash} cid={hx (utf8 h.chainId)}"

def metaOfOp (o : Op) : Metadata :=
  { chainId := (ofUtf8? (o.bytes "mcid")).getD "", height := o.nat "mh", time := o.nat "mt", lastDataHash := o.bytes "mldh" }

def showMeta (m : Metadata) : String :=
  s!"mcid={hx (utf8 m.chainId)} mh={m.height} mt={m.time} mldh={hx m.lastDataHash}"

def dataOfOp (o : Op) : Data :=
  { metadata := if o.bool "meta" then some (metaOfOp o) else none, txs := o.list "txs" }

def showData (d : Data) : String :=
  (match d.metadata with | some m => "meta=1 " ++ showMeta m | none => "meta=0") ++ s!" txs={hexList d.txs}"

def signerOfOp (o : Op) : Signer := { address := o.bytes "sa", pubKey := o.bytes "pk" }
def showSigner (s : Signer) : String := s!"sa={hx s.address} pk={hx s.pubKey}"

def step (_ : Unit) (line : String) : Unit × String :=
  let o := parseOp line
  let keyOk : Bytes → Bool := fun _ => o.bool "keyok"
  let out :=
    match o.verb with
    | "reset" => "ok"
    | "enc-header" =>
      let h := headerOfOp o
      s!"bytes={hx h.encode} hash={hx h.hash}"
    | "enc-meta" => s!"bytes={hx (metaOfOp o).encode}"
    | "enc-data" =>
      let d := dataOfOp o
      s!"bytes={hx d.encode} hash={hx d.hash} dac={hx d.daCommitment}"
    | "enc-sh" =>
      let sh : SignedHeader := { header := headerOfOp o, signature := o.bytes "sig", signer := signerOfOp o }
      s!"bytes={hx sh.encode} hash={hx sh.header.hash}"
    | "enc-sd" =>
      let sd : SignedData := { data := dataOfOp o, signature := o.bytes "sig", signer := signerOfOp o }
      s!"bytes={hx sd.encode} hash={hx sd.data.hash} dac={hx sd.data.daCommitment}"
    | "dec-header" =>
      match Header.decode (o.bytes "b") with
      | some h => s!"ok {showHeader h} re={hx h.encode} hash={hx h.hash}"
      | none => "err"
    | "dec-meta" =>
      match Metadata.decode (o.bytes "b") with
      | some m => s!"ok {showMeta m} re={hx m.encode}"
      | none => "err"
    | "dec-data" =>
      match Data.decode (o.bytes "b") with
      | some d => s!"ok {showData d} re={hx d.encode} hash={hx d.hash} dac={hx d.daCommitment}"
      | none => "err"
    | "dec-sh" =>
      match SignedHeader.decode keyOk (o.bytes "b") with
      | some sh => s!"ok {showHeader sh.header} sig={hx sh.signature} {showSigner sh.signer} re={hx sh.encode}"
      | none => "err"
    | "dec-sd" =>
      match SignedData.decode keyOk (o.bytes "b") with
      | some sd => s!"ok {showData sd.data} sig={hx sd.signature} {showSigner sd.signer} re={hx sd.encode} dac={hx sd.data.daCommitment}"
      | none => "err"
    | "bd-enc" => s!"bytes={hx (Producer.batchDataToBytes (o.list "list"))}"
    | "bd-dec" =>
      match Producer.bytesToBatchData (o.bytes "b") with
      | some l => s!"ok list={hexList l}"
      | none => "err"
    | _ => "bad-op"
  ((), out)

end Drv.C12
