import Drv.Sync
import Drv.Submit
import Model.FullNode

/-! Driver for the full-node stream `FNODE` (C02, C05): a proposer chain built by the producer model, its parts
placed on a scripted DA layer, a full node (`FullNode.run`: DA scan + sync loop) run until quiescent, crashed at any
write boundary, restarted cleanly. -/
namespace Drv.FN
open Wire Chain

structure St where
  pcfg : Producer.Cfg := { chainId := "vchain", initialHeight := 1, genesisTime := 0, proposerAddr := [], key := 1, signerAddr := [] }
  prod : Producer.Node := {}
  cfg : FullNode.Cfg := { sync := { chainId := "vchain", initialHeight := 1, genesisTime := 0, proposerAddr := [] } }
  h : FullNode.HSt := { ok := false }
  pk : Bytes := []
  pk2 : Bytes := []
  deriving Inhabited

def short (b : Bytes) : String := if b.isEmpty then "-" else ((Bytes.toHex b).take 8).toString

def forgedBytes : Bytes := Bytes.ofString "forged"

def bits (o : Retrieve.Oracle) : String :=
  let f := fun (b : Bool) => if b then "1" else "0"
  f o.keyOk ++ f o.hdrSigOk ++ f o.dataSigOk

/-- one item of a `place` op: blob, crypto oracle, identity shown in the observation -/
def item (s : St) (tok : String) : Option (Bytes × Retrieve.Oracle × String) :=
  let pa := s.cfg.sync.proposerAddr
  let blk := fun (rest : String) =>
    match rest.toNat? with
    | none => none
    | some k => if k > s.prod.store.height then none else s.prod.store.getBlock k
  if tok = "E" then some ([], FullNode.oNone, "-")
  else if tok.startsWith "J" then
    match Bytes.ofHex ((tok.drop 1).toString) with
    | some b => if b.isEmpty then none else some (b, FullNode.oNone, short b)
    | none => none
  else if tok.startsWith "FH" then
    (blk ((tok.drop 2).toString)).map fun b =>
      let h : Header := { b.sh.hdr with appHash := forgedBytes }
      (SignedHeader.encode { header := h, signature := [1], signer := { address := pa, pubKey := s.pk2 } }, FullNode.oHdr, short h.hash)
  else if tok.startsWith "FD" then
    (blk ((tok.drop 2).toString)).map fun b =>
      let d : Data := { metadata := b.data.metadata, txs := [forgedBytes] }
      (FullNode.datBlob s.pk2 [1] pa d, FullNode.oDat, short d.daCommitment)
  else if tok.startsWith "XH" then
    (blk ((tok.drop 2).toString)).map fun b => (FullNode.hdrBlob s.pk [2] b.sh, FullNode.oBad, short b.sh.hdr.hash)
  else if tok.startsWith "XD" then
    (blk ((tok.drop 2).toString)).map fun b => (FullNode.datBlob s.pk [2] pa b.data, FullNode.oBad, short b.data.daCommitment)
  else if tok.startsWith "H" then
    (blk ((tok.drop 1).toString)).map fun b => (FullNode.hdrBlob s.pk [1] b.sh, FullNode.oHdr, short b.sh.hdr.hash)
  else if tok.startsWith "D" then
    (blk ((tok.drop 1).toString)).map fun b => (FullNode.datBlob s.pk [1] pa b.data, FullNode.oDat, short b.data.daCommitment)
  else none

def showBlocks (c : FullNode.Cfg) (st : Store) : String :=
  let hs := (List.range (st.height + 2 - c.sync.initialHeight)).map (· + c.sync.initialHeight)
  let l := hs.filterMap fun k => (st.getBlock k).map fun b => s!"{k}:{short b.sh.hdr.hash}"
  if l.isEmpty then "-" else String.intercalate "," l

/-- the block at the chain height without the metadata of its data: for an empty block the sync loop builds the
data locally and its `lastDataHash` depends on whether the previous block had been applied when the header arrived
(order of the two event channels: free) -/
def showHead (st : Store) (h : Nat) : String :=
  match st.getBlock h with
  | none => "none"
  | some b => s!"{Drv.Prod.showSH b.sh} txs={hexList b.data.txs} ssig={Drv.Prod.sigClass b.sh.hdr b.savedSig}"

def metaNat (st : Store) (k : String) : Nat :=
  match st.getMeta k with
  | some b => if b.length = 8 then Bytes.unLe b else 0
  | none => 0

/-- DA-included height (memory / persisted), `SetFinal` calls since the last start, recorded DA heights -/
def showInc (c : FullNode.Cfg) (h : FullNode.HSt) : String :=
  let st := h.nd.full.store
  let ks := (List.range (h.daInc + 1 - c.sync.initialHeight)).map (· + c.sync.initialHeight)
  let rhb := ks.map fun k => s!"{k}:{metaNat st (Submit.rhbKey k "h")}:{metaNat st (Submit.rhbKey k "d")}"
  s!"dainc={h.daInc}/{metaNat st Submit.daIncKey} fin={natList h.finals.reverse} rhb={if rhb.isEmpty then "-" else String.intercalate "," rhb}"

def observe (c : FullNode.Cfg) (nd : FullNode.Node) (ws : List SW) : String :=
  let n := nd.full
  let h := n.store.height
  let disk := match n.store.state with | some s => Drv.Prod.showState s | none => "none"
  s!"height={h} cursor={nd.cursor} disk={disk} mem={Drv.Prod.showState n.lastState} alive={if n.alive then 1 else 0} w={Drv.Prod.showWs ws} blocks={showBlocks c n.store} head=[{showHead n.store h}]"

/-- the proposer's chain holds two non-empty blocks with the same transaction list: the state at quiescence then depends
on the relative order in which the sync loop serves its two channels (data is marked seen when its block is APPLIED,
/repo c3c43a6; C02's order-independence needs `DistinctCommitments`), and only schedule-independent facts are printed -/
def dupChain (s : St) : Bool :=
  let ih := s.cfg.sync.initialHeight
  let txs := (List.range (s.prod.store.height + 1 - ih)).filterMap fun i =>
    match s.prod.store.getBlock (ih + i) with
    | some b => if b.data.txs.isEmpty then none else some b.data.txs
    | none => none
  let rec go : List (List Bytes) → Bool
    | [] => false
    | x :: rest => rest.contains x || go rest
  go txs

/-- alive, DA cursor, "every stored block up to the chain height is the proposer's", "DA-included ≤ chain height" -/
def observeDup (s : St) : String :=
  let n := s.h.nd.full
  let ih := s.cfg.sync.initialHeight
  let ok := (List.range (n.store.height + 1 - ih)).all fun i =>
    let k := ih + i
    match n.store.getBlock k, s.prod.store.getBlock k with
    | some b, some pb => k ≤ s.prod.store.height && b.sh.hdr.hash == pb.sh.hdr.hash
    | _, _ => false
  s!"dup alive={if n.alive then 1 else 0} cursor={s.h.nd.cursor} blocks={if ok then "ok" else "bad"} incok={if s.h.daInc ≤ n.store.height then 1 else 0}"

/-- the observation of the node after an operation -/
def obs (s : St) : String :=
  if dupChain s then observeDup s else observe s.cfg s.h.nd s.h.ws ++ " " ++ showInc s.cfg s.h

/-- observation after a (re)start -/
def startObs (s : St) : String :=
  if s.h.ok then "start " ++ obs s else "start err"

/-- the event the P2P store loops hand over for a part of the proposer's chain -/
def p2pEvent (s : St) (tok : String) : Option Retrieve.Event :=
  let blk := fun (rest : String) =>
    match rest.toNat? with
    | none => none
    | some k => if k > s.prod.store.height then none else s.prod.store.getBlock k
  if tok.startsWith "H" then
    (blk ((tok.drop 1).toString)).map fun b =>
      .hdr { header := b.sh.hdr, signature := [1], signer := { address := b.sh.signer.addr, pubKey := s.pk } } s.h.nd.cursor
  else if tok.startsWith "D" then
    (blk ((tok.drop 1).toString)).map fun b =>
      .dat { data := b.data, signature := [1], signer := { address := s.cfg.sync.proposerAddr, pubKey := s.pk } } s.h.nd.cursor
  else none

/-- every operation on the node / the DA layer goes through `FullNode.hstep` -/
def hop (s : St) (o : FullNode.HOp) : St := { s with h := FullNode.hstep s.cfg s.h o }

/-- an item for the node's P2P stores: a header (as the go-header store holds it, with the crypto oracle of the object)
or a data item; `JD<k>`: junk data naming height `k` (the genuine metadata, transactions no block holds) -/
def p2pItem (s : St) (tok : String) : Option ((SignedHeader × Retrieve.Oracle) ⊕ Data) :=
  let pa := s.cfg.sync.proposerAddr
  let blk := fun (rest : String) =>
    match rest.toNat? with
    | none => none
    | some k => if k > s.prod.store.height then none else s.prod.store.getBlock k
  if tok.startsWith "FH" then
    (blk ((tok.drop 2).toString)).map fun b =>
      .inl ({ header := { b.sh.hdr with appHash := forgedBytes }, signature := [1], signer := { address := pa, pubKey := s.pk2 } }, FullNode.oHdr)
  else if tok.startsWith "XH" then
    (blk ((tok.drop 2).toString)).map fun b =>
      .inl ({ header := b.sh.hdr, signature := [2], signer := { address := b.sh.signer.addr, pubKey := s.pk } }, FullNode.oBad)
  else if tok.startsWith "JD" then
    (blk ((tok.drop 2).toString)).map fun b =>
      .inr { metadata := b.data.metadata, txs := [Bytes.ofString ("junk" ++ (tok.drop 2).toString)] }
  else if tok.startsWith "H" then
    (blk ((tok.drop 1).toString)).map fun b =>
      .inl ({ header := b.sh.hdr, signature := [1], signer := { address := b.sh.signer.addr, pubKey := s.pk } }, FullNode.oHdr)
  else if tok.startsWith "D" then
    (blk ((tok.drop 1).toString)).map fun b => .inr b.data
  else none

def parseFetch (t : String) : Option Retrieve.Fetch :=
  match t.splitOn ":" with
  | ["ok"] => some .ok
  | ["future"] => some .future
  | ["notfound"] => some .notFound
  | ["errids"] => some .errIds
  | ["errget"] => some (.errGet 0)
  | ["errget", c] => c.toNat?.map .errGet
  | _ => none

def parseFetches (t : String) : Option (List Retrieve.Fetch) :=
  if t = "" || t = "-" then some [] else (t.splitOn ",").mapM parseFetch

def step (s : St) (line : String) : St × String :=
  let o := parseOp line
  match o.verb with
  | "reset" =>
    let pa := o.bytes "pa"
    let pcfg : Producer.Cfg := { chainId := "vchain", initialHeight := o.nat "ih", genesisTime := o.nat "gt",
                                 proposerAddr := pa, key := 1, signerAddr := pa }
    let cfg : FullNode.Cfg := { sync := { chainId := "vchain", initialHeight := o.nat "ih", genesisTime := o.nat "gt", proposerAddr := pa },
                                daStart := o.nat "dastart", key := 1 }
    match Producer.start pcfg {} with
    | .error _ => ({ pcfg := pcfg, cfg := cfg }, "reset err")
    | .ok (pn, _) =>
      let s1 : St := { pcfg := pcfg, prod := pn, cfg := cfg, pk := o.bytes "pk", pk2 := o.bytes "pk2", h := FullNode.hinit cfg }
      (s1, startObs s1)
  | "produce" =>
    let (pn, _, out) := Producer.publish s.pcfg s.prod (.batch (o.list "txs") (o.nat "ts") []) .ok
    let cls := if Drv.Prod.outClass out = "nil" then "nil" else "err"
    ({ s with prod := pn }, s!"produced out={cls} height={pn.store.height} head=[{Drv.Prod.showBlock pn.store pn.store.height}]")
  | "place" =>
    let da := o.nat "da"
    let toks := if o.str "items" = "" || o.str "items" = "-" then [] else (o.str "items").splitOn ","
    let r := toks.foldl (fun (acc : St × List String) tok =>
      match item s tok with
      | none => (acc.1, acc.2 ++ [s!"{tok}:none"])
      | some (b, orc, idn) => (hop acc.1 (.place da b orc), acc.2 ++ [s!"{tok}:{idn}:{bits orc}"]))
      (s, [])
    (r.1, s!"placed da={da} head={r.1.h.v.top} " ++ (if r.2.isEmpty then "-" else String.intercalate "," r.2))
  | "head" =>
    let s1 := hop s (.head (o.nat "n"))
    (s1, s!"head={s1.h.v.top}")
  | "script" =>
    match parseFetches (o.str "outcomes") with
    | none => (s, "bad-op")
    | some l => (hop s (.script (o.nat "da") l), "ok")
  | "run" =>
    if !s.h.ok then (s, "dead") else
    let s1 := hop s .run
    (s1, "run " ++ obs s1)
  | "runinc" =>
    -- one includer pass after `at` of the sync loop's durable writes (inside a block application)
    if !s.h.ok then (s, "dead") else
    let k := o.nat "at"
    let s1 := { s with h := FullNode.hstep2 s.cfg s.h (.runInc k) }
    if dupChain s then (s1, "runinc " ++ obs s1) else
    let mid :=
      if FullNode.midFires s.cfg s.h k then
        let v := FullNode.midView s.cfg s.h k
        let a := (Submit.includerIter v).1
        s!"mid={v.n.store.height}/{a.daInc}/{metaNat a.n.store Submit.daIncKey}/{natList ((a.finals.take (a.finals.length - v.finals.length)).reverse)}"
      else "mid=-"
    (s1, s!"runinc {mid} " ++ obs s1)
  | "p2p" =>
    if !s.h.ok then (s, "dead") else
    let toks := if o.str "items" = "" || o.str "items" = "-" then [] else (o.str "items").splitOn ","
    let evs := toks.filterMap (p2pEvent s)
    let shown := toks.map fun t => if (p2pEvent s t).isSome then t else s!"{t}:none"
    let s1 := hop s (.p2p evs)
    (s1, s!"p2p {if shown.isEmpty then "-" else String.intercalate "," shown} " ++ obs s1)
  | "p2pstore" =>
    -- items arrive in the P2P stores (go-header); unless poll=0 the REAL store loops poll once each and everything
    -- runs until quiescent
    let toks := if o.str "items" = "" || o.str "items" = "-" then [] else (o.str "items").splitOn ","
    let its := toks.map fun t => (t, p2pItem s t)
    let hs := its.filterMap fun (_, x) => match x with | some (.inl h) => some h | _ => none
    let ds := its.filterMap fun (_, x) => match x with | some (.inr d) => some d | _ => none
    let shown := its.map fun (t, x) => if x.isSome then t else s!"{t}:none"
    let sh := if shown.isEmpty then "-" else String.intercalate "," shown
    if o.str "poll" = "0" then
      let s1 := hop s (.p2padd hs ds)
      (s1, s!"p2padd {sh} hs={s1.cfg.sync.initialHeight - 1 + s1.h.hStore.length} ds={s1.cfg.sync.initialHeight - 1 + s1.h.dStore.length}")
    else if !s.h.ok then (s, "dead") else
      let s1 := hop s (.p2pstore hs ds (o.str "order" ≠ "dh"))
      (s1, s!"p2pstore {sh} hs={s1.cfg.sync.initialHeight - 1 + s1.h.hStore.length} ds={s1.cfg.sync.initialHeight - 1 + s1.h.dStore.length} " ++ obs s1)
  | "restart" =>
    if !s.h.ok then (s, "dead") else
    let s1 := hop s .restart
    (s1, startObs s1)
  | "stopheld" =>
    -- a scan served in a chosen schedule of the two channels, a clean stop with `hold` events still queued, restart
    if !s.h.ok then (s, "dead") else
    let s1 := hop (hop s (.runHeld (o.str "order" ≠ "dh") (o.nat "hold"))) .restart
    (s1, startObs s1)
  | "crash" =>
    if !s.h.ok then (s, "dead") else
    let s1 := hop s (.crash (o.nat "keep"))
    (s1, startObs s1)
  | "show" =>
    if !s.h.ok then (s, "dead") else
    let n := s.h.nd.full
    if dupChain s then (s, s!"show dup cursor={s.h.nd.cursor}") else
    (s, s!"show height={n.store.height} cursor={s.h.nd.cursor} hc={natList (Drv.Syn.sortNats (n.hdrCache.map (·.1)))} dc={natList (Drv.Syn.sortNats (n.datCache.map (·.1)))} seenH={Drv.Syn.shortHashes n.seenH} seenD={Drv.Syn.shortHashes n.seenD} hm={Drv.Sub.showMarks s.h.hMarks} dm={Drv.Sub.showMarks s.h.dMarks}")
  | _ => (s, "bad-op")

end Drv.FN
