import Drv.Producer
import Model.Sync

/-! Driver for the syncing-node streams (C02, C05): a proposer chain built by the producer model, events
delivered to the sync model in the order chosen by the op lines. -/
namespace Drv.Syn
open Wire Chain

structure St where
  pcfg : Producer.Cfg := { chainId := "vchain", initialHeight := 1, genesisTime := 0, proposerAddr := [], key := 1, signerAddr := [] }
  prod : Producer.Node := {}
  scfg : Sync.Cfg := { chainId := "vchain", initialHeight := 1, genesisTime := 0, proposerAddr := [] }
  full : Sync.FNode := {}
  before : Store := {}
  ws : List SW := []
  ok : Bool := false
  saved : Sync.FNode := {}     -- the cache files: the caches as of the last clean stop (`restart`)
  deriving Inhabited

def insertSorted (x : Nat) : List Nat → List Nat
  | [] => [x]
  | y :: ys => if x < y then x :: y :: ys else if x = y then y :: ys else y :: insertSorted x ys

def sortNats (l : List Nat) : List Nat := l.foldl (fun acc x => insertSorted x acc) []

def insertStr (x : String) : List String → List String
  | [] => [x]
  | y :: ys => if x < y then x :: y :: ys else if x = y then y :: ys else y :: insertStr x ys

def shortHashes (l : List Bytes) : String :=
  let ss := l.foldl (fun acc b => insertStr ((Bytes.toHex b).take 8).toString acc) []
  if ss.isEmpty then "-" else String.intercalate "," ss

def execOf (ws : List SW) : String :=
  let l := ws.filterMap fun w => match w with | .saveBlock h b => some s!"{h}:{b.data.txs.length}" | _ => none
  if l.isEmpty then "-" else String.intercalate "," l

def observe (n : Sync.FNode) (ws : List SW) (exec : List SW) : String :=
  let h := n.store.height
  let disk := match n.store.state with | some s => Drv.Prod.showState s | none => "none"
  s!"height={h} disk={disk} mem={Drv.Prod.showState n.lastState} hc={natList (sortNats (n.hdrCache.map (·.1)))} dc={natList (sortNats (n.datCache.map (·.1)))} seenH={shortHashes n.seenH} seenD={shortHashes n.seenD} exec={execOf exec} alive={if n.alive then 1 else 0} w={Drv.Prod.showWs ws} head=[{Drv.Prod.showBlock n.store h}]"

def startFull (s : St) (disk : Store) (caches : Sync.FNode) : St × String :=
  -- `NewManager` and the start of `SyncLoop` (which applies what the loaded caches already allow)
  match Sync.boot s.scfg disk caches with
  | none => ({ s with full := { s.full with alive := false }, ok := false }, "start err")
  | some (n, ws) =>
    -- execution calls happen only in the loop's part of the writes (`NewManager` saves the local genesis block)
    let own := match Sync.start s.scfg disk caches with | some (_, ws0) => ws0.length | none => 0
    ({ s with full := n, before := disk, ws := ws, ok := true }, "start " ++ observe n ws (ws.drop own))

def step (s : St) (line : String) : St × String :=
  let o := parseOp line
  match o.verb with
  | "reset" =>
    let pa := o.bytes "pa"
    let pcfg : Producer.Cfg := { chainId := "vchain", initialHeight := o.nat "ih", genesisTime := o.nat "gt",
                                 proposerAddr := pa, key := 1, signerAddr := pa }
    let scfg : Sync.Cfg := { chainId := "vchain", initialHeight := o.nat "ih", genesisTime := o.nat "gt", proposerAddr := pa }
    match Producer.start pcfg {} with
    | .error _ => ({ pcfg := pcfg, scfg := scfg }, "reset err")
    | .ok (pn, _) => startFull { pcfg := pcfg, prod := pn, scfg := scfg } {} {}
  | "produce" =>
    let (pn, _, out) := Producer.publish s.pcfg s.prod (.batch (o.list "txs") (o.nat "ts") []) .ok
    let cls := if Drv.Prod.outClass out = "nil" then "nil" else "err"
    ({ s with prod := pn }, s!"produced out={cls} height={pn.store.height} head=[{Drv.Prod.showBlock pn.store pn.store.height}]")
  | "hdr" | "dat" =>
    if !s.ok then (s, "dead") else
    match s.prod.store.getBlock (o.nat "h") with
    | none => (s, "no-such-block")
    | some b =>
      if o.nat "h" > s.prod.store.height then (s, "no-such-block") else
      let before := s.full.store
      let (n', ws) := if o.verb = "hdr" then Sync.onHeader s.full b.sh else Sync.onData s.full b.data
      ({ s with full := n', before := before, ws := ws }, observe n' ws ws)
  | "junkdat" =>
    -- unauthenticated P2P data: the genuine metadata of block `h`, other transactions
    if !s.ok then (s, "dead") else
    match s.prod.store.getBlock (o.nat "h") with
    | none => (s, "no-such-block")
    | some b =>
      if o.nat "h" > s.prod.store.height then (s, "no-such-block") else
      let before := s.full.store
      -- `same=1`: the genuine transactions (hence the genuine commitment) under a wrong time
      let junk : Data := if o.nat "same" = 1
        then { b.data with metadata := b.data.metadata.map fun m => { m with time := m.time + 1 } }
        else { b.data with txs := o.list "txs" }
      let (n', ws) := Sync.onData s.full junk
      ({ s with full := n', before := before, ws := ws }, observe n' ws ws)
  | "restart" =>
    if !s.ok then (s, "dead") else
    let caches : Sync.FNode := { hdrCache := s.full.hdrCache, datCache := s.full.datCache, seenH := s.full.seenH, seenD := s.full.seenD }
    startFull { s with saved := caches } s.full.store caches
  | "crash" =>
    if !s.ok then (s, "dead") else
    -- `stale=1`: the cache files of the last clean stop are still there (an older generation of the caches)
    if o.nat "stale" = 1 then startFull s (s.before.applyPrefix (o.nat "keep") s.ws) s.saved
    else startFull { s with saved := {} } (s.before.applyPrefix (o.nat "keep") s.ws) {}
  | _ => (s, "bad-op")

end Drv.Syn
