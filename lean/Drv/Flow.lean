import Drv.Producer
import Model.Flow

/-! Driver for the mempool-to-chain stream (C11). -/
namespace Drv.Flw
open Wire Chain Flow

structure St where
  cfg : Flow.Cfg := { p := { chainId := "vchain", initialHeight := 1, genesisTime := 0, proposerAddr := [], key := 1, signerAddr := [] }, qc := {} }
  r : Flow.RunSt := {}
  ok : Bool := false
  deriving Inhabited

def showFW : FW → String
  | .qput _ => "qput"
  | .qdel _ => "qdel"
  | .seen _ => "seen"
  | .st w => Drv.Prod.showW w

def showWs (ws : List FW) : String := if ws.isEmpty then "-" else String.intercalate "," (ws.map showFW)

def blockTxs (s : Store) (h : Nat) : String :=
  match s.getBlock h with
  | some b => hexList b.data.txs
  | none => "none"

def observe (before : Nat) (n : Flow.Node) (ws : List FW) : String :=
  let h := n.prod.store.height
  let newBlocks := (List.range (h - before)).map fun i => s!"{before + 1 + i}:{blockTxs n.prod.store (before + 1 + i)}"
  let nb := if newBlocks.isEmpty then "-" else String.intercalate ";" newBlocks
  s!"height={h} new={nb} pend={blockTxs n.prod.store (h + 1)} qd={n.q.disk.length} seen={n.seen.length} w={showWs ws}"

/-- every operation of the node is executed by `Flow.opStep` (the definition the theorems of `Spec/C11` are about) -/
def step (s : St) (line : String) : St × String :=
  let o := parseOp line
  if o.verb ≠ "reset" && !s.ok then (s, "dead") else
  match o.verb with
  | "reset" =>
    let pa := o.bytes "pa"
    let cfg : Flow.Cfg := { p := { chainId := "vchain", initialHeight := 1, genesisTime := o.nat "gt", proposerAddr := pa, key := 1, signerAddr := pa },
                            qc := { id := Bytes.ofString "vchain", max := o.nat "qmax" } }
    match Flow.initSt cfg with
    | none => ({ cfg := cfg }, "start err")
    | some r => ({ cfg := cfg, r := r, ok := true }, "start " ++ observe r.n.prod.store.height r.n [])
  | "mempool" =>
    let op : Flow.Op := if o.str "mode" = "drain" then .mempoolDrain (o.list "txs") else .mempool (o.list "txs")
    match Flow.opStep s.cfg s.r op with
    | some r => ({ s with r := r }, "ok")
    | none => ({ s with ok := false }, "start err")
  | "drain" =>
    let st := s.r.n.prod.store
    let pend := match st.getBlock (st.height + 1) with | some b => b.data.txs.length | none => 0
    let q := (s.r.n.q.disk.map (·.2.length)).foldl (· + ·) 0
    (s, s!"ok inflight={pend + q}")
  | "reap" =>
    match Flow.opStep s.cfg s.r .reap with
    | some r => ({ s with r := r }, "reap " ++ observe s.r.n.prod.store.height r.n r.ws)
    | none => ({ s with ok := false }, "start err")
  | "produce" =>
    let fail := o.str "exec" = "fail"
    let op : Flow.Op := if fail then .produceFail else .produce
    let ex : Producer.ExecResp := if fail then .fail else .ok
    match Flow.opStep s.cfg s.r op with
    | some r => ({ s with r := r }, s!"produce out={Drv.Prod.outClass (produce s.cfg s.r.n ex).2.2} " ++ observe s.r.n.prod.store.height r.n r.ws)
    | none => ({ s with ok := false }, "start err")
  | "restart" | "crash" =>
    let op : Flow.Op := if o.verb = "crash" then .crash (o.nat "keep") else .restart
    match Flow.opStep s.cfg s.r op with
    | none => ({ s with ok := false }, "start err")
    | some r => ({ s with r := r }, "start " ++ observe r.n.prod.store.height r.n [])
  | _ => (s, "bad-op")

end Drv.Flw
