import Drv.Producer
import Model.Flow

/-! Driver for the mempool-to-chain stream (C11). -/
namespace Drv.Flw
open Wire Chain Flow

structure St where
  cfg : Flow.Cfg := { p := { chainId := "vchain", initialHeight := 1, genesisTime := 0, proposerAddr := [], key := 1, signerAddr := [] }, qc := {} }
  r : Flow.RunSt := {}
  ok : Bool := false
  armed : String := ""            -- datastore fault armed for the next operation (`fail what=…`)
  fault : Option Nat := none      -- a store write of the last production step failed after this many writes: only a restart may follow
  deriving Inhabited

def showFW : FW → String
  | .qput _ => "qput"
  | .qdel _ => "qdel"
  | .seen _ => "seen"
  | .st w => Drv.Prod.showW w

def showWs (ws : List FW) : String := if ws.isEmpty then "-" else String.intercalate "," (ws.map showFW)

def blockTxs (s : Store) (h : Nat) : String :=
  match s.getBlock h with
  | some b => hexList b.data.txs
  | none => "none"

def observe (before : Nat) (n : Flow.Node) (ws : List FW) : String :=
  let h := n.prod.store.height
  let newBlocks := (List.range (h - before)).map fun i => s!"{before + 1 + i}:{blockTxs n.prod.store (before + 1 + i)}"
  let nb := if newBlocks.isEmpty then "-" else String.intercalate ";" newBlocks
  s!"height={h} new={nb} pend={blockTxs n.prod.store (h + 1)} qd={n.q.disk.length} seen={n.seen.length} w={showWs ws}"

/-- a state built by a definition that is NOT an operation of the histories (datastore faults that break the property) -/
def faultSt (s : Flow.RunSt) (n : Flow.Node) (ws : List FW) : Flow.RunSt :=
  { s with n := n, before := diskOf s.n, ws := ws, mempool := if s.drain then [] else s.mempool }

def faultStP (s : Flow.RunSt) (n : Flow.Node) (ws : List FW) : Flow.RunSt :=
  { s with n := n, before := diskOf s.n, ws := ws }

/-- the node as the durable image after the first `k` writes shows it (what the real node's store answers after a failed write) -/
def imageNode (r : Flow.RunSt) (k : Nat) : Flow.Node :=
  let d := Flow.image r k
  { r.n with prod := { r.n.prod with store := d.store }, q := { mem := r.n.q.mem, disk := d.qdisk }, seen := d.seen }

def firstSave : List FW → Nat → Option Nat
  | [], _ => none
  | .st (.saveBlock _ _) :: _, i => some i
  | _ :: r, i => firstSave r (i + 1)

/-- every operation of the node is executed by `Flow.opStep` (the definition the theorems of `Spec/C11` are about); the
datastore faults that break the property (`fail what=seen|qdel`) are executed by `Flow.reapSeenFault` / `Flow.produceDelFault` -/
def step (s0 : St) (line : String) : St × String :=
  let o := parseOp line
  if o.verb ≠ "reset" && !s0.ok then (s0, "dead") else
  if s0.fault.isSome && o.verb ≠ "reset" && o.verb ≠ "restart" && o.verb ≠ "crash" then (s0, "needs-restart") else
  let armed := s0.armed
  let s : St := { s0 with armed := "" }
  match o.verb with
  | "reset" =>
    let pa := o.bytes "pa"
    let cfg : Flow.Cfg := { p := { chainId := "vchain", initialHeight := 1, genesisTime := o.nat "gt", proposerAddr := pa, key := 1, signerAddr := pa },
                            qc := { id := Bytes.ofString "vchain", max := o.nat "qmax" } }
    match Flow.initSt cfg with
    | none => ({ cfg := cfg }, "start err")
    | some r => ({ cfg := cfg, r := r, ok := true }, "start " ++ observe r.n.prod.store.height r.n [])
  | "fail" =>
    let w := o.str "what"
    if w = "qput" || w = "seen" || w = "qdel" || w = "blk" then ({ s with armed := w }, "ok") else (s, "bad-op")
  | "mempool" =>
    let op : Flow.Op := if o.str "mode" = "drain" then .mempoolDrain (o.list "txs") else .mempool (o.list "txs")
    match Flow.opStep s.cfg s.r op with
    | some r => ({ s with r := r }, "ok")
    | none => ({ s with ok := false }, "start err")
  | "drain" =>
    let st := s.r.n.prod.store
    let pend := match st.getBlock (st.height + 1) with | some b => b.data.txs.length | none => 0
    let q := (s.r.n.q.disk.map (·.2.length)).foldl (· + ·) 0
    (s, s!"ok inflight={pend + q}")
  | "reap" =>
    if armed = "seen" then
      let x := reapSeenFault s.cfg s.r.n s.r.mempool
      let r := faultSt s.r x.1 x.2
      ({ s with r := r }, "reap " ++ observe s.r.n.prod.store.height r.n r.ws)
    else
    match Flow.opStep s.cfg s.r (if armed = "qput" then .reapPutFails else .reap) with
    | some r => ({ s with r := r }, "reap " ++ observe s.r.n.prod.store.height r.n r.ws)
    | none => ({ s with ok := false }, "start err")
  | "produce" =>
    let fail := o.str "exec" = "fail"
    let clock := o.str "clock"
    if clock = "back" then
      -- a clock that stepped backwards: outside the operations of the histories (the batch is dropped: recorded finding)
      let x := produce s.cfg s.r.n .ok .back
      let r := faultStP s.r x.1 x.2.1
      ({ s with r := r }, s!"produce out={Drv.Prod.outClass x.2.2} " ++ observe s.r.n.prod.store.height r.n r.ws)
    else if !fail && clock ≠ "same" && o.str "cancel" ≠ "during-getnext" && armed = "qdel" then
      let x := produceDelFault s.cfg s.r.n
      let r := faultStP s.r x.1 x.2.1
      ({ s with r := r }, s!"produce out={Drv.Prod.outClass x.2.2} " ++ observe s.r.n.prod.store.height r.n r.ws)
    else
    let cancel := !fail && clock ≠ "same" && o.str "cancel" = "during-getnext"
    let aware := o.str "exec" = "ctx"
    let op : Flow.Op := if fail then .produceFail else if clock = "same" then .produceSame
                        else if cancel then .produceCancelled aware else .produce
    let out := if fail then (produce s.cfg s.r.n .fail).2.2 else if clock = "same" then (produce s.cfg s.r.n .ok .same).2.2
               else if cancel then (produce s.cfg s.r.n (cancelEx s.cfg s.r.n aware)).2.2
               else (produce s.cfg s.r.n).2.2
    match Flow.opStep s.cfg s.r op with
    | some r =>
      match (if !fail && clock ≠ "same" && !cancel && armed = "blk" then firstSave r.ws 0 else none) with
      | some k =>
        -- the block save fails: the step ends with that error after `k` durable writes, and the error ends the node
        ({ s with r := r, fault := some k }, "produce out=err:store " ++ observe s.r.n.prod.store.height (imageNode r k) (r.ws.take k))
      | none => ({ s with r := r }, s!"produce out={Drv.Prod.outClass out} " ++ observe s.r.n.prod.store.height r.n r.ws)
    | none => ({ s with ok := false }, "start err")
  | "restart" | "crash" =>
    let k0 := if o.verb = "crash" then o.nat "keep" else s.r.ws.length
    let k := match s.fault with | some f => min k0 f | none => k0
    let op : Flow.Op := if o.verb = "crash" || s.fault.isSome then .crash k else .restart
    match Flow.opStep s.cfg s.r op with
    | none => ({ s with ok := false, fault := none }, "start err")
    | some r => ({ s with r := r, fault := none }, "start " ++ observe r.n.prod.store.height r.n [])
  | _ => (s, "bad-op")

end Drv.Flw
