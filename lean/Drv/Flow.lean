import Drv.Producer
import Model.Flow

/-! Driver for the mempool-to-chain stream (C11). -/
namespace Drv.Flw
open Wire Chain Flow

structure St where
  cfg : Flow.Cfg := { p := { chainId := "vchain", initialHeight := 1, genesisTime := 0, proposerAddr := [], key := 1, signerAddr := [] }, qc := {} }
  n : Flow.Node := {}
  before : Flow.Disk := {}
  ws : List FW := []
  mempool : List Bytes := []
  ok : Bool := false
  deriving Inhabited

def showFW : FW → String
  | .qput _ => "qput"
  | .qdel _ => "qdel"
  | .seen _ => "seen"
  | .st w => Drv.Prod.showW w

def showWs (ws : List FW) : String := if ws.isEmpty then "-" else String.intercalate "," (ws.map showFW)

def blockTxs (s : Store) (h : Nat) : String :=
  match s.getBlock h with
  | some b => hexList b.data.txs
  | none => "none"

def observe (before : Nat) (n : Flow.Node) (ws : List FW) : String :=
  let h := n.prod.store.height
  let newBlocks := (List.range (h - before)).map fun i => s!"{before + 1 + i}:{blockTxs n.prod.store (before + 1 + i)}"
  let nb := if newBlocks.isEmpty then "-" else String.intercalate ";" newBlocks
  s!"height={h} new={nb} pend={blockTxs n.prod.store (h + 1)} qd={n.q.disk.length} seen={n.seen.length} w={showWs ws}"

def step (s : St) (line : String) : St × String :=
  let o := parseOp line
  if o.verb ≠ "reset" && !s.ok then (s, "dead") else
  match o.verb with
  | "reset" =>
    let pa := o.bytes "pa"
    let cfg : Flow.Cfg := { p := { chainId := "vchain", initialHeight := 1, genesisTime := o.nat "gt", proposerAddr := pa, key := 1, signerAddr := pa },
                            qc := { id := Bytes.ofString "vchain", max := o.nat "qmax" } }
    match Producer.start cfg.p {} with
    | .error _ => ({ cfg := cfg }, "start err")
    | .ok (p, _) =>
      let n : Flow.Node := { prod := p }
      ({ cfg := cfg, n := n, before := diskOf n, ok := true }, "start " ++ observe p.store.height n [])
  | "mempool" => ({ s with mempool := o.list "txs" }, "ok")
  | "drain" => (s, "ok")
  | "reap" =>
    let before := diskOf s.n
    let (n', ws) := reap s.cfg s.n s.mempool
    ({ s with n := n', before := before, ws := ws }, "reap " ++ observe s.n.prod.store.height n' ws)
  | "produce" =>
    let before := diskOf s.n
    let (n', ws, out) := produce s.cfg s.n
    ({ s with n := n', before := before, ws := ws }, s!"produce out={Drv.Prod.outClass out} " ++ observe s.n.prod.store.height n' ws)
  | "restart" | "crash" =>
    let keep := if o.verb = "crash" then o.nat "keep" else s.ws.length
    let d := (s.ws.take keep).foldl Flow.Disk.apply s.before
    match restart s.cfg s.n d with
    | none => ({ s with ok := false }, "start err")
    | some n' => ({ s with n := n', before := d, ws := [] }, "start " ++ observe n'.prod.store.height n' [])
  | _ => (s, "bad-op")

end Drv.Flw
