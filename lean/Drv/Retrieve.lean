import Drv.Submit
import Model.Retrieve

/-! Driver for the DA-scanning / admission streams (C09, C03). -/
namespace Drv.Ret
open Wire Chain Retrieve

/-- how a scripted outcome was written in the op line -/
inductive Tok | plain | text | textGet (c : Nat)
  deriving Inhabited, DecidableEq

structure St where
  proposer : Bytes := []
  n : RNode := {}
  v : DAView := {}
  ok : Bool := false
  /-- per DA height: is the scripted outcome a TEXT-ONLY variant (what a proxied DA returns: an error whose message
  contains the sentinel's text but does not wrap it)?  The code classifies by SUBSTRING: `RetrieveWithHelpers` maps a
  GetIDs error containing "blob: not found" / "given height is from the future" to NotFound / HeightFromFuture, so
  `notfoundtext` is `.notFound` and `futuretext` is `.future`; a Get error is always StatusError, but
  `processNextDAHeaderAndData` looks for "given height is from the future" in the resulting error text, so
  `errgettext:c` on a chunk that exists ends the round like `.future` (after the gets up to chunk `c`), and is
  `.errGet c` (never fires) otherwise — `prep`.  The tokens keep the names for the fetch log; consumed in lockstep
  with the script. -/
  flags : List (Nat × List Tok) := []
  deriving Inhabited

def oracleOf (o : Op) : Oracle :=
  { keyOk := o.bool "keyok", hdrSigOk := o.bool "hsig", dataSigOk := o.bool "dsig",
    keyAddr := o.bytes "kaddr" }

def short (b : Bytes) : String := if b.isEmpty then "-" else ((Bytes.toHex b).take 8).toString

def showEvents (evs : List Event) : String :=
  let hs := evs.filterMap fun e => match e with
    | .hdr sh da => some s!"h:{sh.header.height}:{short sh.header.hash}@{da}" | _ => none
  let ds := evs.filterMap fun e => match e with
    | .dat sd da => some s!"d:{(sd.data.metadata.map (·.height)).getD 0}:{short sd.data.daCommitment}@{da}" | _ => none
  if (hs ++ ds).isEmpty then "-" else String.intercalate "," (hs ++ ds)

def parseFetch (t : String) : Option (Fetch × Tok) :=
  match t.splitOn ":" with
  | ["ok"] => some (.ok, .plain)
  | ["future"] => some (.future, .plain)
  | ["notfound"] => some (.notFound, .plain)
  | ["errids"] => some (.errIds, .plain)
  | ["errget"] => some (.errGet 0, .plain)
  | ["errget", c] => c.toNat?.map fun c => (.errGet c, .plain)
  | ["notfoundtext"] => some (.notFound, .text)
  | ["futuretext"] => some (.future, .text)
  | ["errgettext"] => some (.errGet 0, .textGet 0)
  | ["errgettext", c] => c.toNat?.map fun c => (.errGet c, .textGet c)
  | _ => none

def showFetch (tok : Tok) : Fetch → String
  | .ok => "ok" | .errIds => "errids"
  | .future => match tok with | .text => "futuretext" | .textGet c => s!"errgettext:{c}" | .plain => "future"
  | .notFound => if tok = .text then "notfoundtext" else "notfound"
  | .errGet c => match tok with | .textGet _ => s!"errgettext:{c}" | _ => s!"errget:{c}"

def flagsAt (fl : List (Nat × List Tok)) (h : Nat) : List Tok := ((fl.find? (·.1 = h)).map (·.2)).getD []
def setFlags (fl : List (Nat × List Tok)) (h : Nat) (l : List Tok) : List (Nat × List Tok) :=
  (h, l) :: fl.filter (·.1 ≠ h)
/-- drop the tokens of the attempts a scan consumed -/
def consumeFlags (fl : List (Nat × List Tok)) : List (Nat × Nat × Bool) → List (Nat × List Tok)
  | [] => fl
  | (h, k, _) :: rest => consumeFlags (setFlags fl h ((flagsAt fl h).drop k)) rest

/-- a text-only "from the future" error on a Get of a chunk that exists is recognised by its text in
`processNextDAHeaderAndData`: the round ends as for `.future` -/
def prepOne (nblobs : Nat) : Fetch → Tok → Fetch
  | .errGet _, .textGet c => if c * 100 < nblobs then .future else .errGet c
  | o, _ => o

def prep (v : DAView) (fl : List (Nat × List Tok)) : DAView :=
  { v with scripts := v.scripts.map fun (h, l) =>
      (h, List.zipWith (prepOne (v.blobsAt h).length) l (flagsAt fl h ++ List.replicate l.length .plain)) }

def getsLog (nblobs : Nat) (upto : Option Nat) : List String :=
  let nch := (nblobs + 99) / 100
  let k := match upto with | some c => min (c + 1) nch | none => nch
  (List.range k).map fun i => s!"get:{min 100 (nblobs - i * 100)}@{i * 100}"

/-- fetch-log lines of the attempts `processNext` makes at one height -/
def attemptLog (h nblobs top : Nat) : Nat → List Fetch → List Tok → List String
  | 0, _, _ => []
  | fuel+1, outs, fl =>
    let o := outs.headD .ok
    let o' := if o = .ok && h ≥ top then Fetch.future else o
    let line := s!"ids:{h}:{showFetch (fl.headD .plain) o'}"
    match o' with
    | .ok => line :: getsLog nblobs none
    | .notFound => [line]
    | .future => match fl.headD .plain with
      | .textGet c => line :: getsLog nblobs (some c)
      | _ => [line]
    | .errIds => line :: attemptLog h nblobs top fuel outs.tail fl.tail
    | .errGet c =>
      if c * 100 < nblobs then (line :: getsLog nblobs (some c)) ++ attemptLog h nblobs top fuel outs.tail fl.tail
      else line :: getsLog nblobs none

/-- fetch log of one scan, recomputed from what the DA view held before it -/
def scanLog (v : DAView) (fl : List (Nat × List Tok)) : List (Nat × Nat × Bool) → List String
  | [] => []
  | (h, _, _) :: rest =>
    attemptLog h (v.blobsAt h).length v.top dAFetcherRetries (v.scriptAt h) (flagsAt fl h) ++ scanLog v fl rest

def showMarks (m : List (Bytes × Nat)) : String := Drv.Sub.showMarks m

def step (s : St) (line : String) : St × String :=
  let o := parseOp line
  if o.verb ≠ "reset" && !s.ok then (s, "dead") else
  match o.verb with
  | "reset" =>
    let st : St := { proposer := o.bytes "pa", n := { daHeight := o.nat "start" }, ok := true }
    (st, s!"start cursor={st.n.daHeight}")
  | "place" =>
    let da := o.nat "da"
    ({ s with v := { s.v with placed := s.v.placed ++ [(da, o.bytes "blob", oracleOf o)], top := max s.v.top (da + 1) } }, "ok")
  | "script" =>
    let toks := if o.str "outcomes" = "" || o.str "outcomes" = "-" then [] else (o.str "outcomes").splitOn ","
    match toks.mapM parseFetch with
    | none => (s, "bad-op")
    | some l => (if l.isEmpty then s else
        { s with v := s.v.setScript (o.nat "da") (l.map (·.1)), flags := setFlags s.flags (o.nat "da") (l.map (·.2)) }, "ok")
  | "blob" =>
    let b := o.bytes "blob"
    let da := o.nat "da"
    let cls := classify (oracleOf o) s.proposer b
    let ret := match cls with
      | .empty => "empty"
      | .hdrAccepted _ | .hdrFromProtoErr | .hdrUnexpectedSequencer => "true"
      | _ => "false"
    let (n', evs) := handleBlobs s.proposer s.n da [(b, oracleOf o)] []
    ({ s with n := n' }, s!"blob ret={ret} events={showEvents evs} hm={showMarks n'.hMarks} dm={showMarks n'.dMarks}")
  | "seen" =>
    match headerStage (oracleOf o) (o.bytes "blob") with
    | .ok sh => ({ s with n := { s.n with seenH := sh.header.hash :: s.n.seenH } }, "ok")
    | _ => (s, "undecodable")
  | "p2phdr" =>
    match headerStage (oracleOf o) (o.bytes "blob") with
    | .ok sh =>
      let evs := if p2pAdmit (oracleOf o) s.proposer sh then [Event.hdr sh s.n.daHeight] else []
      (s, s!"p2p events={showEvents evs}")
    | _ => (s, "undecodable")
  | "p2plib" =>
    let tr : Option (Option SignedHeader) :=
      if o.str "trusted" = "-" || o.str "trusted" = "" then some none
      else match headerStage { keyOk := o.bool "tkeyok", hdrSigOk := false, dataSigOk := false } (o.bytes "trusted") with
        | .ok t => some (some t)
        | _ => none
    match tr with
    | none => (s, "bad-trusted")
    | some t =>
      let v := match p2pLibAdmit (oracleOf o) t (o.bytes "blob") with
        | .accepted => "accepted" | .rejDecode => "rejected:decode"
        | .rejValidate => "rejected:validate" | .rejVerify => "rejected:verify"
        | .rejGenesis => "rejected:genesis" | .panics => "panic"
      (s, s!"p2plib {v}")
  | "p2pstale" =>
    -- the real sync service restarted on a store whose genuine head is `age` hours old; `tp` = the trusting period
    -- (hours) the node is to configure (100 years since /repo 700919b), `now` = the op line's clock (ns)
    match headerStage { keyOk := o.bool "tkeyok", hdrSigOk := false, dataSigOk := false } (o.bytes "head") with
    | .ok hd =>
      if o.nat "now" = 0 || (o.nat? "tp").isNone || (o.nat? "age").isNone then (s, "bad-op") else
      match headerStage (oracleOf o) (o.bytes "blob") with
      | .ok _ =>
        let tp : Int := (o.nat "tp" : Int) * 3600000000000
        let h := staleStoreHead tp (o.nat "now" : Int) (oracleOf o) hd (o.bytes "blob")
        (s, s!"p2pstale head={h} {if h > hd.header.height then "adopted" else "kept"}")
      | _ => (s, "p2pstale undecodable")
    | _ => (s, "bad-op")
  | "p2pboot" =>
    let v := match p2pBootAdmit (oracleOf o) s.proposer (o.bytes "blob") with
      | .accepted => "stored" | .rejDecode => "rejected:decode" | .rejValidate => "rejected:validate"
      | .rejGenesis => "rejected:genesis" | .rejVerify => "rejected:verify" | .panics => "panic"
    (s, s!"p2pboot {v}")
  | "p2pbootdat" =>
    let v := match p2pBootDataAdmit (o.bytes "blob") with
      | .accepted => "stored" | .rejDecode => "rejected:decode" | .rejValidate => "rejected:validate"
      | .rejGenesis => "rejected:genesis" | .rejVerify => "rejected:verify" | .panics => "panic"
    (s, s!"p2pbootdat {v}")
  | "p2plibdat" =>
    let tr : Option (Option Data) :=
      if o.str "trusted" = "-" || o.str "trusted" = "" then some none
      else match Data.decode (o.bytes "trusted") with
        | some t => if t.metadata.isSome then some (some t) else none
        | none => none
    match tr with
    | none => (s, "bad-trusted")
    | some t =>
      let v := match p2pLibDataAdmit t (o.bytes "blob") with
        | .accepted => "accepted" | .rejDecode => "rejected:decode" | .rejValidate => "rejected:validate"
        | .rejVerify => "rejected:verify" | .rejGenesis => "rejected:genesis" | .panics => "panic"
      (s, s!"p2plibdat {v}")
  | "flood" =>
    let da := o.nat "da"
    let entry := (da, o.bytes "blob", oracleOf o)
    let v1 := prep { s.v with placed := s.v.placed ++ List.replicate (o.nat "n") entry, top := max s.v.top (da + 1) } s.flags
    let (n', v', evs, tr) := scan s.proposer (v1.top + 4 - s.n.daHeight) s.n v1 [] []
    ({ s with n := n', v := v', flags := consumeFlags s.flags tr }, s!"flood cursor={n'.daHeight} nev={evs.length}")
  | "tick" =>
    let v0 := prep s.v s.flags
    let (n', v', evs, tr) := scan s.proposer (v0.top + 4 - s.n.daHeight) s.n v0 [] []
    let log := scanLog v0 s.flags tr
    let fl := if log.isEmpty then "-" else String.intercalate "," log
    ({ s with n := n', v := v', flags := consumeFlags s.flags tr }, s!"tick cursor={n'.daHeight} fetch={fl} events={showEvents evs} hm={showMarks n'.hMarks} dm={showMarks n'.dMarks}")
  | _ => (s, "bad-op")

end Drv.Ret
