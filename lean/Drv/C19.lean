import Drv.Util
import Model.KeyFile

/-! Driver for the `keyfile` stream (C19): the key-file model on the symbolic crypto instance `Sym`.
`put` carries the harness's field-level description of the (possibly mutated) file. -/
namespace Drv.C19
open KeyFile

structure St where
  disk : Disk Sym := .absent
  /-- the key bytes are known to both sides (observations carry pub/addr) -/
  known : Bool := false
  exported : Option Bytes := none

def init : St := {}

def hx (b : Bytes) : String := Bytes.toHexTok b

/-- placeholders for what `crypto/rand` supplies to the real code (the model is parametric in them) -/
def phSk : SymSK := ⟨List.replicate 64 1, by decide⟩
def phSalt : Bytes := List.replicate 16 0x53
def phNonce : Bytes := List.replicate 12 0x4e

def errStr : Err → String
  | .nofile => "err:nofile" | .exists_ => "err:exists" | .json => "err:json"
  | .auth => "err:auth" | .privkey => "err:privkey" | .pubkey => "err:pubkey"
  | .nonce => "err:nonce" | .emptypass => "err:emptypass" | .pubmismatch => "err:pubmismatch"

/-- never printed by the model (`Spec.C19.C19_noPanic`); the real code prints these when a guard is lost -/
def panicStr : Panic → String
  | .divZero => "panic:divzero" | .nonceLen => "panic:nonce"

def probeMsg : Bytes := Bytes.ofString "verif-c19-probe"

def signerObs (known : Bool) (s : Signer Sym) : String :=
  let cls := if s.probe probeMsg then "ok-matching" else "ok-mismatching"
  if known then s!"{cls} pub={hx (Sym.pubBytes s.pk)} addr={hx (address Sym s.pk)}" else cls

/-- optional field token: missing or "~" = absent -/
def optField (o : Op) (k : String) : Option Bytes :=
  match o.get? k with
  | none => none
  | some v => if v = "~" then none else Bytes.ofHex v

def fileOfOp (o : Op) : Disk Sym :=
  if o.str "j" ≠ "ok" then .garbage
  else
    let ct : Option SymCt :=
      match o.str "ct" with
      | "~" => none
      | "S" =>
        let key : Option SymKey :=
          if o.bool "cl" then (legacyKey (o.bytes "cp")).map SymKey.raw
          else some (SymKey.argon (o.bytes "cp") (o.bytes "cs"))
        match key with
        | some k => some (SymCt.sealed k (o.bytes "cn") (o.bytes "sk"))
        | none => some SymCt.garbage
      | _ => some SymCt.garbage
    .file { ct := ct, nonce := optField o "nonce", pub := optField o "pub", salt := optField o "salt" }

def step (st : St) (line : String) : St × String :=
  let o := parseOp line
  match o.verb with
  | "reset" => (init, "ok")
  | "create" =>
    match create Sym (o.bytes "pass") phSk phSalt phNonce st.disk with
    | .ok (s, d) => ({ st with disk := d, known := false }, signerObs false s)
    | .err e => (st, errStr e)
    | .panic p => (st, panicStr p)
  | "put" =>
    match o.bytes? "file" with
    | none => (st, "bad-op")
    | some _ => ({ st with disk := fileOfOp o, known := true }, "ok")
  | "load" =>
    match loadDisk Sym (o.bytes "pass") st.disk with
    | .ok s => (st, signerObs st.known s)
    | .err e => (st, errStr e)
    | .panic p => (st, panicStr p)
  | "export" =>
    match exportDisk Sym (o.bytes "pass") st.disk with
    | .ok m =>
      let obs :=
        if st.known then
          match Sym.parsePriv m with
          | some sk => s!"ok pub={hx (Sym.pubBytes (Sym.pubOf sk))}"
          | none => "ok pub=?"
        else "ok"
      ({ st with exported := some m }, obs)
    | .err e => (st, errStr e)
    | .panic p => (st, panicStr p)
  | "import" =>
    let fromOp := (o.get? "raw").isSome
    let raw? : Option Bytes := if fromOp then some (o.bytes "raw") else st.exported
    match raw? with
    | none => (st, "bad-op")
    | some raw =>
      match importKey Sym (o.bytes "pass") raw phSalt phNonce with
      | .ok f => ({ st with disk := .file f, known := st.known || fromOp }, "ok")
      | .err e => (st, errStr e)
      | .panic p => (st, panicStr p)
  | "addr" =>
    match Sym.parsePriv (o.bytes "sk") with
    | some sk => (st, s!"ok addr={hx (address Sym (Sym.pubOf sk))}")
    | none => (st, "err:privkey")
  | "procs" => if o.nat "n" ≤ 64 then (st, "ok") else (st, "bad-op")   -- host parallelism: no part of the model
  | _ => (st, "bad-op")

end Drv.C19
