import Drv.Util
import Model.DAProxy
import Gen.C16

/-! Driver for the `proxy` stream (C16): every op is evaluated on the model of the direct call and
on the model of the proxied call; the environment (registry, sentinel messages and types) is
`Gen.C16`, regenerated from the compiled code. -/
namespace Drv.C16
open DAProxy

/-- the environment the compiled code presents now -/
def env : Env :=
  { reg := { byType := Gen.C16.byType, byCode := Gen.C16.byCode },
    sentMsg := Gen.C16.sentinelMsgs, sentType := Gen.C16.sentinelTypes,
    canceledMsg := Gen.C16.ctxCanceledMsg, tyCtxCanceled := Gen.C16.tyCtxCanceled,
    tyJSONRPCError := Gen.C16.tyJSONRPCError, tyErrClient := Gen.C16.tyErrClient,
    tyWrapError := Gen.C16.tyWrapError, tyPlain := Gen.C16.tyPlain }

def wrapPre : Bytes := Bytes.ofString "da: "
def wrapPost : Bytes := Bytes.ofString ": requested 7, current 3"

/-- the error a scripted answer names (`err:i`, `wrap:i`, `ctx`, `other`, `msg:<hex>`) -/
def scriptedErr (ans : String) : Option GoErr :=
  match ans.splitOn ":" with
  | ["err", i] => (i.toNat?.bind Sentinel.ofIdx?).map env.sentinel
  | ["wrap", i] => (i.toNat?.bind Sentinel.ofIdx?).map fun s => env.wrap wrapPre wrapPost (env.sentinel s)
  | ["ctx"] => some env.ctxCanceled
  | ["other"] => some (env.plain (Bytes.ofString "da unavailable"))
  | ["msg", h] => (Bytes.ofHex h).map env.plain
  | _ => none

inductive SubAns
  | ok (k : Option Nat) | dummy | fail (e : GoErr)

def parseSubAns (ans : String) : Option SubAns :=
  if ans = "ok" then some (.ok none)
  else if ans = "dummy" then some .dummy
  else match ans.splitOn ":" with
    | ["ok", k] => k.toNat?.map fun n => .ok (some n)
    | _ => (scriptedErr ans).map .fail

def showIs (r : Option GoErr) : String :=
  match r with
  | none => "ok"
  | some e =>
    let ds := Sentinel.all.filterMap fun s => if e.is (.da s) then some (toString s.idx) else none
    let l := ds ++ (if e.is .ctxCanceled then ["c"] else [])
    if l.isEmpty then "-" else String.intercalate "," l

def showTy (r : Option GoErr) : String :=
  match r with
  | none => "-"
  | some e => Gen.C16.typeNames.getD e.dynType "?"

def errOf {α} : Except GoErr α → Option GoErr
  | .error e => some e
  | .ok _ => none

def showSubmit (r : SubmitResult) : String := s!"{r.code.name}/{r.count}/{r.nids}/{r.height}"
def showRetrieve (r : RetrieveResult) : String :=
  let fut := if contains r.msg (env.msgOf .heightFromFuture) then 1 else 0
  s!"{r.code.name}/{r.nids}/{r.nblobs}/{fut}"

/-- one submission: the observation line of `submit`; `wire?` overrides what the request carried (csubmit:
taken from the two-caller model `Calls.run`) -/
def submitLine (ans : SubAns) (max hArg : Nat) (cancelled : Bool) (sizes : List Nat)
    (wire? : Option (Option (List Nat)) := none) : String :=
  -- a fresh DummyDA stamps its ids with its own height `currentHeight + 1 = 1` (dummy.go:178)
  let h := match ans with | .dummy => 1 | _ => hArg
  let answer : List Nat → Except GoErr Nat := fun got =>
    match ans with
    | .ok none => .ok got.length
    | .ok (some k) => .ok (min k got.length)
    | .dummy => dummySubmit env id max got
    | .fail e => .error e
  -- the backing DA honours a cancelled context before anything else
  let backingD : List Nat → Except GoErr Nat := fun got => if cancelled then .error env.ctxCanceled else answer got
  let dr := backingD sizes
  let d := submitHelper sizes.length h dr
  let cs := clientSubmit env id max sizes cancelled answer
  let p := submitHelper sizes.length h cs.1
  let sent := match wire?.getD cs.2 with | none => "none" | some l => natList l
  let wire := match cs.1, cs.2 with
    | .error e, some l =>
      if e.dynType = env.tyJSONRPCError then
        match answer l with | .error e0 => toString (serverCode env.reg e0) | .ok _ => "-"
      else "-"
    | _, _ => "-"
  s!"d={showSubmit d} p={showSubmit p} sent={sent} dis={showIs (errOf dr)} pis={showIs (errOf cs.1)} dty={showTy (errOf dr)} pty={showTy (errOf cs.1)} wire={wire}"

def maxOf (o : Op) : Nat := if o.nat "max" = 0 then Gen.C16.defaultMaxBlobSize else o.nat "max"

def submitOp (o : Op) : String :=
  match parseSubAns (o.str "ans") with
  | none => "bad-op"
  | some ans => submitLine ans (maxOf o) (o.nat "h") (o.bool "cancel") (o.nats "sizes")

/-- two callers on one client: the phases of the two calls are interleaved as the gate forces them
(`gate=free`: some order; the result does not depend on it, `Spec.C16.C16_concurrent_requests_own_batch`) -/
def csubmitOp (o : Op) : String :=
  match parseSubAns (o.str "ans"), o.get? "a", o.get? "b" with
  | some ans, some _, some _ =>
    let gate := o.str "gate"
    if gate ≠ "stub" ∧ gate ≠ "da" ∧ gate ≠ "free" then "bad-op" else
    let a := o.nats "a"
    let b := o.nats "b"
    let st := Calls.run id (maxOf o) a b (if gate = "da" then schedDA else schedStub)
    s!"a[{submitLine ans (maxOf o) (o.nat "h") false a (some st.wireA)}] b[{submitLine ans (maxOf o) (o.nat "h") false b (some st.wireB)}]"
  | _, _, _ => "bad-op"

def bit (b : Bool) : String := if b then "1" else "0"

/-- the caller gives up in the middle of a call (or not), the DA layer waits for inclusion -/
def xsubmitOp (o : Op) : String :=
  let how := o.str "cancel"
  if (how ≠ "mid" ∧ how ≠ "none") ∨ (o.get? "sizes").isNone then "bad-op" else
  let mid := how = "mid"
  let sizes := o.nats "sizes"
  let h := o.nat "h"
  let d := directMidCall env sizes mid
  let p := proxiedMidCall env id (maxOf o) sizes mid
  let sent := match p.reached with | none => "none" | some l => natList l
  s!"d={showSubmit (submitHelper sizes.length h d.result)} p={showSubmit (submitHelper sizes.length h p.result)} sent={sent} dsaw={bit d.sawCancel} psaw={bit p.sawCancel} dstored={natList d.stored} pstored={natList p.stored} dis={showIs (errOf d.result)} pis={showIs (errOf p.result)} dty={showTy (errOf d.result)} pty={showTy (errOf p.result)}"

/-- a DA call that takes `delay` ms and succeeds, nobody cancels: no deadline covers the handler run in the server
(`Spec.C16.server_no_handler_deadline`, a regenerated fact), so the delay changes nothing: the call completes as
`proxiedMidCall … false`; `back` = what the ids the proxied caller got read back as through the proxy -/
def slowsubmitOp (o : Op) : String :=
  match o.nat? "delay", o.get? "sizes" with
  | some ms, some _ =>
    if ms > 20000 then "bad-op" else
    let sizes := o.nats "sizes"
    let h := o.nat "h"
    let d := directMidCall env sizes false
    let p := proxiedMidCall env id (maxOf o) sizes false
    let pr := submitHelper sizes.length h p.result
    let sent := match p.reached with | none => "none" | some l => natList l
    s!"d={showSubmit (submitHelper sizes.length h d.result)} p={showSubmit pr} sent={sent} dstored={natList d.stored} pstored={natList p.stored} back={natList (p.stored.take pr.nids)} dis={showIs (errOf d.result)} pis={showIs (errOf p.result)} dty={showTy (errOf d.result)} pty={showTy (errOf p.result)}"
  | _, _ => "bad-op"

/-- the last error the helper saw while retrieving, direct or proxied -/
def lastErr (ids : Except GoErr IdsReply) (get : Nat → Nat → Except GoErr Nat) : Option GoErr :=
  match ids with
  | .error e => some e
  | .ok res =>
    if res.count = 0 then none
    else match getLoop get 0 (chunkSizes res.count) 0 [] with
      | .error (_, _, e, _) => some e
      | .ok _ => none

def retrieveOp (o : Op) : String :=
  let idsS := o.str "ids"
  let getS := o.str "get"
  let idsAns : Option (Except GoErr IdsReply) :=
    if idsS = "ok" then some (.ok (.ids (min (o.nat "n") 2000)))
    else if idsS = "nil" then some (.ok .nilRes)
    else (scriptedErr idsS).map .error
  let getAns : Option (Option GoErr) := if getS = "ok" then some none else (scriptedErr getS).map some
  match idsAns, getAns with
  | some ids, some ge =>
    let at_ := o.nat "at"
    let cancelled := o.bool "cancel"
    let get : Nat → Nat → Except GoErr Nat := fun i n =>
      match ge with
      | some e => if i = at_ then .error e else .ok n
      | none => .ok n
    let idsD := if cancelled then .error env.ctxCanceled else ids
    let d := directRetrieve env idsD get
    let p := proxiedRetrieve env cancelled ids get
    -- the errors the helper saw on the proxied side
    let idsP : Except GoErr IdsReply :=
      clientGetIDs env (if cancelled then .error env.canceledTransport else stub env .nilRes ids)
    let getP : Nat → Nat → Except GoErr Nat := fun i n => clientGet env (stub env 0 (get i n))
    s!"d={showRetrieve d} p={showRetrieve p} gets={natList p.gets} dis={showIs (lastErr idsD get)} pis={showIs (lastErr idsP getP)} dty={showTy (lastErr idsD get)} pty={showTy (lastErr idsP getP)}"
  | _, _ => "bad-op"

def step (_ : Unit) (line : String) : Unit × String :=
  let o := parseOp line
  let out :=
    match o.verb with
    | "reset" => "ok"
    | "submit" => submitOp o
    | "retrieve" => retrieveOp o
    | "csubmit" => csubmitOp o
    | "xsubmit" => xsubmitOp o
    | "slowsubmit" => slowsubmitOp o
    | _ => "bad-op"
  ((), out)

end Drv.C16
