import Drv.Util
import Model.DAProxy
import Gen.C16

/-! Driver for the `proxy` stream (C16): every op is evaluated on the model of the direct call and
on the model of the proxied call; the environment (registry, sentinel messages and types) is
`Gen.C16`, regenerated from the compiled code. -/
namespace Drv.C16
open DAProxy

/-- the environment the compiled code presents now -/
def env : Env :=
  { reg := { byType := Gen.C16.byType, byCode := Gen.C16.byCode },
    sentMsg := Gen.C16.sentinelMsgs, sentType := Gen.C16.sentinelTypes,
    canceledMsg := Gen.C16.ctxCanceledMsg, tyCtxCanceled := Gen.C16.tyCtxCanceled,
    tyJSONRPCError := Gen.C16.tyJSONRPCError, tyErrClient := Gen.C16.tyErrClient,
    tyWrapError := Gen.C16.tyWrapError, tyPlain := Gen.C16.tyPlain }

def wrapPre : Bytes := Bytes.ofString "da: "
def wrapPost : Bytes := Bytes.ofString ": requested 7, current 3"

/-- the error a scripted answer names (`err:i`, `wrap:i`, `ctx`, `other`, `msg:<hex>`) -/
def scriptedErr (ans : String) : Option GoErr :=
  match ans.splitOn ":" with
  | ["err", i] => (i.toNat?.bind Sentinel.ofIdx?).map env.sentinel
  | ["wrap", i] => (i.toNat?.bind Sentinel.ofIdx?).map fun s => env.wrap wrapPre wrapPost (env.sentinel s)
  | ["ctx"] => some env.ctxCanceled
  | ["other"] => some (env.plain (Bytes.ofString "da unavailable"))
  | ["msg", h] => (Bytes.ofHex h).map env.plain
  | _ => none

inductive SubAns
  | ok (k : Option Nat) | dummy | fail (e : GoErr)

def parseSubAns (ans : String) : Option SubAns :=
  if ans = "ok" then some (.ok none)
  else if ans = "dummy" then some .dummy
  else match ans.splitOn ":" with
    | ["ok", k] => k.toNat?.map fun n => .ok (some n)
    | _ => (scriptedErr ans).map .fail

def showIs (r : Option GoErr) : String :=
  match r with
  | none => "ok"
  | some e =>
    let ds := Sentinel.all.filterMap fun s => if e.is (.da s) then some (toString s.idx) else none
    let l := ds ++ (if e.is .ctxCanceled then ["c"] else [])
    if l.isEmpty then "-" else String.intercalate "," l

def showTy (r : Option GoErr) : String :=
  match r with
  | none => "-"
  | some e => Gen.C16.typeNames.getD e.dynType "?"

def errOf {α} : Except GoErr α → Option GoErr
  | .error e => some e
  | .ok _ => none

def showSubmit (r : SubmitResult) : String := s!"{r.code.name}/{r.count}/{r.nids}/{r.height}"
def showRetrieve (r : RetrieveResult) : String :=
  let fut := if contains r.msg (env.msgOf .heightFromFuture) then 1 else 0
  s!"{r.code.name}/{r.nids}/{r.nblobs}/{fut}"

def submitOp (o : Op) : String :=
  match parseSubAns (o.str "ans") with
  | none => "bad-op"
  | some ans =>
    let max := if o.nat "max" = 0 then Gen.C16.defaultMaxBlobSize else o.nat "max"
    -- a fresh DummyDA stamps its ids with its own height `currentHeight + 1 = 1` (dummy.go:178)
    let h := match ans with | .dummy => 1 | _ => o.nat "h"
    let cancelled := o.bool "cancel"
    let sizes := o.nats "sizes"
    let answer : List Nat → Except GoErr Nat := fun got =>
      match ans with
      | .ok none => .ok got.length
      | .ok (some k) => .ok (min k got.length)
      | .dummy => dummySubmit env id max got
      | .fail e => .error e
    -- the backing DA honours a cancelled context before anything else
    let backingD : List Nat → Except GoErr Nat := fun got => if cancelled then .error env.ctxCanceled else answer got
    let dr := backingD sizes
    let d := submitHelper sizes.length h dr
    let cs := clientSubmit env id max sizes cancelled answer
    let p := submitHelper sizes.length h cs.1
    let sent := match cs.2 with | none => "none" | some l => natList l
    let wire := match cs.1, cs.2 with
      | .error e, some l =>
        if e.dynType = env.tyJSONRPCError then
          match answer l with | .error e0 => toString (serverCode env.reg e0) | .ok _ => "-"
        else "-"
      | _, _ => "-"
    s!"d={showSubmit d} p={showSubmit p} sent={sent} dis={showIs (errOf dr)} pis={showIs (errOf cs.1)} dty={showTy (errOf dr)} pty={showTy (errOf cs.1)} wire={wire}"

/-- the last error the helper saw while retrieving, direct or proxied -/
def lastErr (ids : Except GoErr IdsReply) (get : Nat → Nat → Except GoErr Nat) : Option GoErr :=
  match ids with
  | .error e => some e
  | .ok res =>
    if res.count = 0 then none
    else match getLoop get 0 (chunkSizes res.count) 0 [] with
      | .error (_, _, e, _) => some e
      | .ok _ => none

def retrieveOp (o : Op) : String :=
  let idsS := o.str "ids"
  let getS := o.str "get"
  let idsAns : Option (Except GoErr IdsReply) :=
    if idsS = "ok" then some (.ok (.ids (min (o.nat "n") 2000)))
    else if idsS = "nil" then some (.ok .nilRes)
    else (scriptedErr idsS).map .error
  let getAns : Option (Option GoErr) := if getS = "ok" then some none else (scriptedErr getS).map some
  match idsAns, getAns with
  | some ids, some ge =>
    let at_ := o.nat "at"
    let cancelled := o.bool "cancel"
    let get : Nat → Nat → Except GoErr Nat := fun i n =>
      match ge with
      | some e => if i = at_ then .error e else .ok n
      | none => .ok n
    let idsD := if cancelled then .error env.ctxCanceled else ids
    let d := directRetrieve env idsD get
    let p := proxiedRetrieve env cancelled ids get
    -- the errors the helper saw on the proxied side
    let idsP : Except GoErr IdsReply :=
      clientGetIDs env (if cancelled then .error env.canceledTransport else stub env .nilRes ids)
    let getP : Nat → Nat → Except GoErr Nat := fun i n => clientGet env (stub env 0 (get i n))
    s!"d={showRetrieve d} p={showRetrieve p} gets={natList p.gets} dis={showIs (lastErr idsD get)} pis={showIs (lastErr idsP getP)} dty={showTy (lastErr idsD get)} pty={showTy (lastErr idsP getP)}"
  | _, _ => "bad-op"

def step (_ : Unit) (line : String) : Unit × String :=
  let o := parseOp line
  let out :=
    match o.verb with
    | "reset" => "ok"
    | "submit" => submitOp o
    | "retrieve" => retrieveOp o
    | _ => "bad-op"
  ((), out)

end Drv.C16
