import Drv.Util
import Model.Lazy

/-! Driver for the `lazy` stream (C17).

`run mode=lazy|normal B=<ms> I=<ms> span=<ms> dd=<ms> tol=<ms> jit=<ms> upto=<M> script=<k:d:o1+o2:p1+p2,…|->`

The environment of the loop is scripted *relative to production starts* (so that the real run does
not accumulate drift): the `k`-th production (0-based) lasts `d` ms (default `dd`);
`NotifyNewTransactions()` is called `o` ms after its start for every listed offset `o` (inside the
production when `o < d`), and a *probe* — a pure time marker without any effect — is recorded `p` ms
after its start for every listed `p`.

Observation = the **order of events**: `L<k>`/`B<k>`/`N<k>` production `k` started from the lazy-timer
case / the block-timer case / by the normal loop, `e<k>` it ended, `n<k>.<j>` the `j`-th notification
of production `k`'s script was sent, `p<k>.<j>` its `j`-th probe passed; cut after the first `upto`
events.  The real loop prints the order it went through.

The driver prints the **set of admissible outcomes**: it explores every resolution of simultaneously
ready `select` cases (`In.tick pick`), every interleaving of the events of one instant, and — `jit` —
every delivery instant of a notification/probe within `jit` ms of its scripted time (the theorems of
`Spec.C17` quantify over all arrival times and all picks, so each of them is a run of the model).
A scenario whose events are well separated has exactly one outcome and the line is the same text on
both sides; for a near-tie scenario the real outcome must be a member of the set.
`runs=` lists the production start times of the admissible runs (used by the timing monitor).

Start-up wait (`Lazy.Sys`, `Lazy.boot`): with `since=<ms> via=genesis|last sn=<o1+o2|-> sp=<p1+p2|->` the
clock starts at the reference instant of the wait (`via=last`: the time of the last block before the
restart; `via=genesis`: genesis time, nothing produced yet), `AggregationLoop` is called `since` ms
later, `NotifyNewTransactions()` is called `o` ms after that call for every `o` of `sn` (token `w<j>`)
and a probe passes `p` ms after it for every `p` of `sp` (token `q<j>`).  Without `since` the loop
proper starts at 0 (no wait), as before. -/
namespace Drv.C17
open Lazy

structure PSpec where
  idx : Nat
  dur : Nat
  offs : List Nat
  probes : List Nat
  deriving Repr, BEq

def parseOffs (s : String) : List Nat :=
  if s = "-" || s = "" then [] else (s.splitOn "+").filterMap String.toNat?

/-- duration field; `r` = the production is *refused* (`publishBlock` returns at once without producing
a block, as at the pending limit): for the loop a production of 0 ms. -/
def parseDur (d : String) : Option Nat := if d = "r" then some 0 else d.toNat?

def parseScript (s : String) : Option (List PSpec) :=
  if s = "-" || s = "" then some []
  else (s.splitOn ",").mapM fun it =>
    match it.splitOn ":" with
    | [k, d, o] => do
      let k ← k.toNat?
      let d ← parseDur d
      some { idx := k, dur := d, offs := parseOffs o, probes := [] }
    | [k, d, o, p] => do
      let k ← k.toNat?
      let d ← parseDur d
      some { idx := k, dur := d, offs := parseOffs o, probes := parseOffs p }
    | _ => none

def specOf (script : List PSpec) (k : Nat) : Option PSpec := script.find? (·.idx = k)
def durOf (script : List PSpec) (dd k : Nat) : Nat := ((specOf script k).map (·.dur)).getD dd
def offsOf (script : List PSpec) (k : Nat) : List Nat := ((specOf script k).map (·.offs)).getD []
def probesOf (script : List PSpec) (k : Nat) : List Nat := ((specOf script k).map (·.probes)).getD []

/-- a scripted call of `NotifyNewTransactions` (`notif`) or a probe, to be delivered at some instant
of `[lo, hi]`; `(k, j)` = its place in the script. -/
structure Ev where
  lo : Nat
  hi : Nat
  notif : Bool
  k : Nat
  j : Nat
  /-- scripted relative to the call of `AggregationLoop` (start-up wait), not to a production -/
  pre : Bool := false
  deriving Repr, BEq

def Ev.key (e : Ev) : List Nat := [e.hi, e.lo, if e.notif then 0 else 1, e.k, e.j, if e.pre then 1 else 0]

def lexLe : List Nat → List Nat → Bool
  | [], _ => true
  | _ :: _, [] => false
  | a :: as, b :: bs => if a < b then true else if b < a then false else lexLe as bs

/-- canonical order of the pending events (so that equal situations are equal values) -/
def insertEv (e : Ev) : List Ev → List Ev
  | [] => [e]
  | x :: xs => if lexLe e.key x.key then e :: x :: xs else x :: insertEv e xs

def Ev.tok (e : Ev) : String :=
  if e.pre then (if e.notif then "w" else "q") ++ toString e.j
  else (if e.notif then "n" else "p") ++ toString e.k ++ "." ++ toString e.j

def sysFlight : Sys → Option Flight
  | .waiting _ _ _ => none
  | .running s => s.flight

structure Sim where
  st : Sys
  sched : List Ev
  k : Nat               -- productions started so far
  toks : List String    -- reversed
  starts : List Nat     -- reversed
  deriving BEq

structure Env where
  cfg : Cfg
  script : List PSpec
  dd : Nat
  jit : Nat

def mkEvs (jit p k : Nat) (notif : Bool) (offs : List Nat) (pre : Bool := false) : List Ev :=
  (List.range offs.length).zip offs |>.map fun (j, o) =>
    { lo := max p (p + o - jit), hi := p + o + jit, notif := notif, k := k, j := j, pre := pre }

/-- one quantum of the loop goroutine (`Lazy.step … (.tick pick dur)`) + bookkeeping of the events -/
def tickWith (e : Env) (sim : Sim) (pick : Nat) : Sim :=
  let r := sysStep e.cfg sim.st (.tick pick (durOf e.script e.dd sim.k))
  match r.2 with
  | [] =>
    match sysFlight sim.st, sysFlight r.1 with
    | some _, none => { sim with st := r.1, toks := ("e" ++ toString (sim.k - 1)) :: sim.toks }
    | _, _ => { sim with st := r.1 }
  | p :: _ =>
    let cause :=
      if e.cfg.lazy then
        match sysFlight r.1 with
        | some f => if f.viaBlock then "B" else "L"
        | none => "?"
      else "N"
    let evs := mkEvs e.jit p sim.k true (offsOf e.script sim.k) ++ mkEvs e.jit p sim.k false (probesOf e.script sim.k)
    { st := r.1, k := sim.k + 1, starts := p :: sim.starts,
      toks := (cause ++ toString sim.k) :: sim.toks,
      sched := evs.foldl (fun acc ev => insertEv ev acc) sim.sched }

def deliver (e : Env) (sim : Sim) (ev : Ev) : Sim :=
  { sim with
    st := if ev.notif then (sysStep e.cfg sim.st .notify).1 else sim.st
    sched := sim.sched.filter (· != ev)
    toks := ev.tok :: sim.toks }

/-- has the loop goroutine something to do at this instant (code after `publishBlock` returned, or a
ready `select` case)? -/
def loopReady (cfg : Cfg) : Sys → Bool
  | .waiting now wake _ => wake ≤ now          -- `time.After(delay)` fired (or there was no delay)
  | .running s =>
    match s.flight with
    | some f => f.fin ≤ s.now
    | none => !(enabled cfg s).isEmpty

/-- number of ways the loop goroutine can continue when it is ready -/
def nChoices (cfg : Cfg) : Sys → Nat
  | .waiting _ _ _ => 1
  | .running s => if s.flight.isSome then 1 else (enabled cfg s).length

/-- micro-steps possible at the current instant: deliver an event whose window is open, let the loop
goroutine run (any ready case), or — only when the goroutine is blocked and no event is overdue —
let one millisecond pass. -/
def succs (e : Env) (sim : Sim) : List Sim :=
  let now := sim.st.now
  let ds := (sim.sched.filter (·.lo ≤ now)).map (deliver e sim)
  let ready := loopReady e.cfg sim.st
  let ls :=
    if ready then (List.range (nChoices e.cfg sim.st)).map (tickWith e sim)
    else []
  let adv := if !ready && sim.sched.all (fun ev => now < ev.hi) then [tickWith e sim 0] else []
  ds ++ ls ++ adv

/-- all ways through the zero-time steps of the current instant, up to the states in which time has
advanced. -/
def closure (e : Env) : Nat → Sim → List Sim
  | 0, sim => [sim]
  | fuel + 1, sim =>
    (succs e sim).flatMap fun s' =>
      if s'.st.now > sim.st.now then [s'] else closure e fuel s'

def explore (e : Env) (horizon : Nat) : Nat → List Sim → List Sim
  | 0, fr => fr
  | fuel + 1, fr =>
    match fr with
    | [] => []
    | s :: _ =>
      if s.st.now ≥ horizon then fr
      else explore e horizon fuel ((fr.flatMap (closure e 32)).eraseDups)

def strLe (a b : String) : Bool := compare a b != Ordering.gt

def sortStrs (l : List String) : List String := (l.eraseDups).mergeSort strLe

/-- `start = none`: the loop proper from time 0; `some (since, sn, sp)`: `AggregationLoop` called
`since` ms after the reference instant 0, with the scripted start-up notifications and probes. -/
def initSim (e : Env) (start : Option (Nat × List Nat × List Nat)) : Sim :=
  match start with
  | none => { st := .running Lazy.init, sched := [], k := 0, toks := [], starts := [] }
  | some (since, sn, sp) =>
    let evs := mkEvs e.jit since 0 true sn true ++ mkEvs e.jit since 0 false sp true
    { st := boot e.cfg 0 since, sched := evs.foldl (fun acc ev => insertEv ev acc) [], k := 0, toks := [], starts := [] }

def finals (e : Env) (horizon : Nat) (start : Option (Nat × List Nat × List Nat)) : List Sim :=
  explore e horizon (horizon + 1) [initSim e start]

def outcomeOf (upto : Nat) (s : Sim) : String :=
  let t := s.toks.reverse.take upto
  if t.isEmpty then "-" else String.intercalate "," t

def showSet (cap : Nat) (l : List String) : String :=
  toString l.length ++ " " ++ String.intercalate "|" (l.take cap)

def step (_ : Unit) (line : String) : Unit × String :=
  let o := parseOp line
  let out :=
    match o.verb with
    | "reset" => "ok"
    | "run" =>
      let mode := o.str "mode"
      let b := o.nat "B"; let i := o.nat "I"; let span := o.nat "span"
      let dd := o.nat "dd"; let jit := o.nat "jit"; let upto := o.nat "upto"
      match parseScript (o.str "script") with
      | none => "bad-op"
      | some script =>
        if (mode ≠ "lazy" && mode ≠ "normal") || b = 0 || i = 0 || span = 0 || span > 30000 || upto = 0 || jit > 500 then "bad-op"
        else
          let e : Env := { cfg := { block := b, idle := i, lazy := mode = "lazy" }, script := script, dd := dd, jit := jit }
          let start : Option (Option (Nat × List Nat × List Nat)) :=
            match o.get? "since" with
            | none => some none
            | some sv =>
              match sv.toNat? with
              | none => none
              | some since =>
                if since > 30000 || (o.str "via" ≠ "genesis" && o.str "via" ≠ "last") then none
                else some (some (since, parseOffs (o.str "sn"), parseOffs (o.str "sp")))
          match start with
          | none => "bad-op"
          | some start =>
          let fs := finals e span start
          let outs := sortStrs (fs.map (outcomeOf upto))
          let runs := sortStrs (fs.map fun s => natList s.starts.reverse)
          s!"outs={showSet 12 outs} runs={showSet 4 runs}"
    | _ => "bad-op"
  ((), out)

end Drv.C17
