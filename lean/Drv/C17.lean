import Drv.Util
import Model.Lazy

/-! Driver for the `lazy` stream (C17).

`run mode=lazy|normal B=<ms> I=<ms> span=<ms> edge=<ms> dd=<ms> script=<k:d:o1+o2,…|->`

The environment of the loop is scripted *relative to production starts* (so that the real run does
not accumulate drift): the `k`-th production (0-based) lasts `d` ms (default `dd`) and
`NotifyNewTransactions()` is called `o` ms after its start, for every listed offset `o`.
The driver explores **every resolution of simultaneously ready `select` cases** and prints the set
of admissible runs: `count=[lo,hi]` (productions started before `span`), the number of distinct
runs and (at most four of) the runs as lists of production start times `< span+edge`. -/
namespace Drv.C17
open Lazy

structure PSpec where
  idx : Nat
  dur : Nat
  offs : List Nat
  deriving Repr, BEq

def parseOffs (s : String) : List Nat :=
  if s = "-" || s = "" then [] else (s.splitOn "+").filterMap String.toNat?

def parseScript (s : String) : Option (List PSpec) :=
  if s = "-" || s = "" then some []
  else (s.splitOn ",").mapM fun it =>
    match it.splitOn ":" with
    | [k, d, o] => do
      let k ← k.toNat?
      let d ← d.toNat?
      some { idx := k, dur := d, offs := parseOffs o }
    | _ => none

def specOf (script : List PSpec) (k : Nat) : Option PSpec := script.find? (·.idx = k)
def durOf (script : List PSpec) (dd k : Nat) : Nat := ((specOf script k).map (·.dur)).getD dd
def offsOf (script : List PSpec) (k : Nat) : List Nat := ((specOf script k).map (·.offs)).getD []

def insertSorted (t : Nat) : List Nat → List Nat
  | [] => [t]
  | x :: xs => if t ≤ x then t :: x :: xs else x :: insertSorted t xs

structure Sim where
  st : St
  sched : List Nat      -- absolute times of the pending NotifyNewTransactions calls, ascending
  k : Nat               -- productions started so far
  starts : List Nat     -- reversed
  deriving BEq

def tickWith (cfg : Cfg) (script : List PSpec) (dd : Nat) (sim : Sim) (pick : Nat) : Sim :=
  let r := step cfg sim.st (.tick pick (durOf script dd sim.k))
  match r.2 with
  | [] => { sim with st := r.1 }
  | p :: _ =>
    { st := r.1, k := sim.k + 1, starts := p :: sim.starts,
      sched := (offsOf script sim.k).foldl (fun acc o => insertSorted (p + o) acc) sim.sched }

/-- successors of one micro-step: a due notification is delivered first (delivering it later at the
same instant is covered by the resolution choice), otherwise one loop quantum per ready case. -/
def succs (cfg : Cfg) (script : List PSpec) (dd : Nat) (sim : Sim) : List Sim :=
  match sim.sched with
  | t :: rest =>
    if t ≤ sim.st.now then [{ sim with st := (step cfg sim.st .notify).1, sched := rest }]
    else branch
  | [] => branch
where
  branch : List Sim :=
    if sim.st.flight.isSome then [tickWith cfg script dd sim 0]
    else
      let n := (enabled cfg sim.st).length
      if n ≤ 1 then [tickWith cfg script dd sim 0]
      else (List.range n).map (tickWith cfg script dd sim)

/-- all ways to get through the zero-time steps of the current instant, up to the first state in
which time has advanced. -/
def closure (cfg : Cfg) (script : List PSpec) (dd : Nat) : Nat → Sim → List Sim
  | 0, sim => [sim]
  | fuel + 1, sim =>
    (succs cfg script dd sim).flatMap fun s' =>
      if s'.st.now > sim.st.now then [s'] else closure cfg script dd fuel s'

def dedup (l : List Sim) : List Sim := l.eraseDups

def explore (cfg : Cfg) (script : List PSpec) (dd horizon : Nat) : Nat → List Sim → List Sim
  | 0, fr => fr
  | fuel + 1, fr =>
    match fr with
    | [] => []
    | s :: _ =>
      if s.st.now ≥ horizon then fr
      else explore cfg script dd horizon fuel (dedup (fr.flatMap (closure cfg script dd 16)))

def runsOf (cfg : Cfg) (script : List PSpec) (dd horizon : Nat) : List (List Nat) :=
  let fr := explore cfg script dd horizon (horizon + 1)
    [{ st := Lazy.init, sched := [], k := 0, starts := [] }]
  (fr.map fun s => (s.starts.reverse.filter (· < horizon))).eraseDups

def countBelow (span : Nat) (r : List Nat) : Nat := (r.filter (· < span)).length

def showRuns (rs : List (List Nat)) : String :=
  String.intercalate "|" ((rs.take 4).map natList)

def step (_ : Unit) (line : String) : Unit × String :=
  let o := parseOp line
  let out :=
    match o.verb with
    | "reset" => "ok"
    | "run" =>
      let mode := o.str "mode"
      let b := o.nat "B"; let i := o.nat "I"; let span := o.nat "span"; let edge := o.nat "edge"
      let dd := o.nat "dd"
      match parseScript (o.str "script") with
      | none => "bad-op"
      | some script =>
        if (mode ≠ "lazy" && mode ≠ "normal") || b = 0 || i = 0 || span = 0 || span + edge > 30000 then "bad-op"
        else
          let cfg : Cfg := { block := b, idle := i, lazy := mode = "lazy" }
          let rs := runsOf cfg script dd (span + edge)
          let cs := rs.map (countBelow span)
          let lo := cs.foldl min (cs.headD 0)
          let hi := cs.foldl max 0
          s!"count=[{lo},{hi}] runs={rs.length} {showRuns rs}"
    | _ => "bad-op"
  ((), out)

end Drv.C17
