import Drv.Util
import Model.Based
import Model.Sha256

/-! Driver for the `based` stream (C20): the model of `GetNextBatch` on a scripted DA. -/
namespace Drv.C20
open Based

structure S where
  cfg : Cfg := ⟨0, 0⟩
  da : DA := {}
  st : St := {}
  last : List Bytes := []     -- the caller's lastBatchData (block manager: kept while no batch comes)
  cids : Bool := false        -- `reset … ids=content`: the DA's ids are height ‖ sha256(blob), as core/da.DummyDA's
  deriving Inhabited

/-- the DA answers with content-derived ids (`core/da/dummy.go`: `makeID(height, sha256(blob))`): byte-identical
blobs of one height share an id. `getNextBatch` carries ids along and never compares them, so the model itself
is unchanged; only the environment (the `da` argument) differs. -/
def cidFetch (f : Nat → Fetch) (h : Nat) : Fetch :=
  match f h with
  | .ok items ts => .ok (items.map fun it => ⟨it.tx, Bytes.le 8 h ++ sha256 it.tx⟩) ts
  | x => x

def S.fetch (s : S) : Nat → Fetch := if s.cids then cidFetch s.da.fetch else s.da.fetch

def tok (b : Bytes) : String := if b.isEmpty then "." else Bytes.toHex b

def showEntry (e : Entry) : String :=
  s!"{e.ts}#" ++ String.intercalate "," (e.items.map fun it => tok it.tx ++ "@" ++ tok it.id)

def showQ : Option (List Entry) → String
  | none => "none"
  | some [] => "-"
  | some q => String.intercalate "|" (q.map showEntry)

def showPos : Option Nat → String
  | none => "-"
  | some n => toString n

def showW (ws : List Wr) : String :=
  if ws.isEmpty then "-" else String.intercalate "," (ws.map fun | .pending _ => "P" | .scan _ => "S")

def tail (s : St) : String := s!"pos={showPos s.scanP} q={showQ s.pendP}"

/-- one call as the block manager makes it; returns the new state and the response -/
def call (s : S) (req : Req) : S × Out :=
  let o := getNextBatch s.cfg s.fetch s.st req
  let last := match o.resp with
    | .batch items _ => items.map (·.id)
    | _ => s.last
  ({ s with st := o.st, last := last }, o)

def drain (max : Nat) : Nat → S → List Bytes → S × List Bytes
  | 0, s, acc => (s, acc)
  | k+1, s, acc =>
    let (s', o) := call s { max := max, last := s.last }
    drain max k s' (acc ++ o.resp.items.map (·.id))

def step (s : S) (line : String) : S × String :=
  let o := parseOp line
  match o.verb with
  | "reset" => ({ cfg := ⟨o.nat "start", o.nat "drift"⟩, cids := o.str "ids" == "content" }, "ok")
  | "put" =>
    match o.nat? "h", (o.get? "txs").bind parseHexList with
    | some h, some txs =>
      if h < s.da.head then (s, "err:past")
      else ({ s with da := { s.da with head := h + 1, blobs := s.da.blobs ++ [(h, txs)] } }, "ok")
    | _, _ => (s, "bad-op")
  | "head" =>
    match o.nat? "n" with
    | some n => ({ s with da := { s.da with head := if n > s.da.head then n else s.da.head } }, "ok")
    | none => (s, "bad-op")
  | "fault" =>
    match o.nat? "h" with
    | some h =>
      let clr : DA := { s.da with errIds := s.da.errIds.filter (· ≠ h), errGet := s.da.errGet.filter (· ≠ h) }
      match o.str "k" with
      | "errids" => ({ s with da := { clr with errIds := h :: clr.errIds } }, "ok")
      | "errget" => ({ s with da := { clr with errGet := h :: clr.errGet } }, "ok")
      | "none" => ({ s with da := clr }, "ok")
      | _ => (s, "bad-op")
    | none => (s, "bad-op")
  | "next" =>
    match o.nat? "max" with
    | none => (s, "bad-op")
    | some max =>
      let echo : Option (List Bytes) :=
        match o.get? "echo" with
        | none => some s.last
        | some "none" => some []
        | some t => parseHexList t
      match echo with
      | none => (s, "bad-op")
      | some last =>
        let (s', out) := call s { idOk := !(o.bool "badid"), max := max, last := last }
        let t := s!"{tail s'.st} w={showW out.writes}"
        match out.resp with
        | .errInvalidId => (s', s!"err:invalid-id {t}")
        | .errLastHeight => (s', s!"err:last-da-height {t}")
        | .nil => (s', s!"nil {t}")
        | .batch items ts => (s', s!"rel={hexList (items.map (·.tx))} ids={hexList (items.map (·.id))} ts={ts} {t}")
  | "crash-next" =>
    match o.nat? "max", o.nat? "at" with
    | some max, some k =>
      let echo : Option (List Bytes) :=
        match o.get? "echo" with
        | none => some s.last
        | some "none" => some []
        | some t => parseHexList t
      match echo with
      | none => (s, "bad-op")
      | some last =>
        -- the real call runs, dies after its first `k` durable writes; the answer is not delivered
        let out := getNextBatch s.cfg s.fetch s.st { idOk := !(o.bool "badid"), max := max, last := last }
        let st := crashAt s.st out.writes k
        let und : String := match out.resp with
          | .errInvalidId => "err:invalid-id"
          | .errLastHeight => "err:last-da-height"
          | .nil => "nil"
          | .batch items _ => "und=" ++ hexList (items.map Item.id)
        ({ s with st := st }, s!"crash k={min k out.writes.length} {und} pos={showPos st.scanP} q={showQ (some st.queue)} w={showW out.writes}")
    | _, _ => (s, "bad-op")
  | "restart" =>
    let st := restart s.st
    ({ s with st := st }, s!"ok pos={showPos st.scanP} q={showQ (some st.queue)}")
  | "end" =>
    match o.nat? "max", o.nat? "calls" with
    | some max, some k =>
      if k > 400 then (s, "bad-op")
      else
        let (s', ids) := drain max k s []
        (s', s!"n={k} rel={hexList ids} {tail s'.st}")
    | _, _ => (s, "bad-op")
  | _ => (s, "bad-op")

end Drv.C20
