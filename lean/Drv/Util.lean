import Model.Bytes

/-! Line protocol helpers for the driver: `verb k=v k=v …`. -/
namespace Drv

structure Op where
  verb : String
  args : List (String × String)
  deriving Inhabited

def parseOp (line : String) : Op :=
  let toks := (line.splitOn " ").filter (· ≠ "")
  match toks with
  | [] => { verb := "", args := [] }
  | v :: rest =>
    { verb := v,
      args := rest.filterMap fun t =>
        match t.splitOn "=" with
        | k :: v :: more => some (k, String.intercalate "=" (v :: more))
        | _ => none }

def Op.get? (o : Op) (k : String) : Option String := (o.args.find? (·.1 = k)).map (·.2)
def Op.str (o : Op) (k : String) : String := (o.get? k).getD ""
def Op.nat? (o : Op) (k : String) : Option Nat := (o.get? k).bind String.toNat?
def Op.nat (o : Op) (k : String) : Nat := (o.nat? k).getD 0
def Op.bytes? (o : Op) (k : String) : Option Bytes := (o.get? k).bind Bytes.ofHex
def Op.bytes (o : Op) (k : String) : Bytes := (o.bytes? k).getD []
def Op.bool (o : Op) (k : String) : Bool := o.str k = "1" || o.str k = "true"

/-- comma separated list of hex strings; "-" = empty list; "." = empty element -/
def parseHexList (s : String) : Option (List Bytes) :=
  if s = "-" || s = "" then some []
  else (s.splitOn ",").mapM fun p => if p = "." then some [] else Bytes.ofHexChars p.toList

def Op.list (o : Op) (k : String) : List Bytes := ((o.get? k).bind parseHexList).getD []

def hexList (bs : List Bytes) : String :=
  if bs.isEmpty then "-" else String.intercalate "," (bs.map fun b => if b.isEmpty then "." else Bytes.toHex b)

def natList (ns : List Nat) : String :=
  if ns.isEmpty then "-" else String.intercalate "," (ns.map toString)

def parseNatList (s : String) : List Nat :=
  if s = "-" || s = "" then [] else (s.splitOn ",").filterMap String.toNat?

def Op.nats (o : Op) (k : String) : List Nat := parseNatList (o.str k)

/-- generic driver loop over a step function -/
partial def loop {σ : Type} (h : IO.FS.Stream) (out : IO.FS.Stream) (init : σ) (step : σ → String → σ × String) : IO Unit := do
  let mut s := init
  repeat
    let line ← h.getLine
    if line.isEmpty then break
    let l := line.trimAscii.toString
    if l.isEmpty || l.startsWith "#" then continue
    let (s', o) := step s l
    s := s'
    out.putStrLn o
  out.flush

end Drv
