import Drv.Sync
import Model.Submit

/-! Driver for the submission / inclusion streams (C06, C07, C08). -/
namespace Drv.Sub
open Wire Chain Submit

structure St where
  cfg : Producer.Cfg := { chainId := "vchain", initialHeight := 1, genesisTime := 0, proposerAddr := [], key := 1, signerAddr := [] }
  a : ANode := {}
  ts : Nat := 0
  before : Store := {}
  ws : List SW := []
  ok : Bool := false
  deriving Inhabited

def metaNat (s : Store) (k : String) : Nat :=
  match s.getMeta k with
  | some b => if b.length = 8 then Bytes.unLe b else 0
  | none => 0

def showMarks (m : List (Bytes × Nat)) : String :=
  let dedup := m.foldl (fun (acc : List (Bytes × Nat)) kv => if acc.any (·.1 = kv.1) then acc else acc ++ [kv]) []
  let ss := dedup.foldl (fun acc kv => Drv.Syn.insertStr (((Bytes.toHex kv.1).take 8).toString ++ ":" ++ toString kv.2) acc) []
  if ss.isEmpty then "-" else String.intercalate "," ss

def showState (a : ANode) : String :=
  let s := a.n.store
  s!"height={s.height} hwm={a.n.hdrWm}/{metaNat s hdrWmKey} dwm={a.n.dataWm}/{metaNat s dataWmKey} np={s.height - a.n.hdrWm}/{s.height - a.n.dataWm} dainc={a.daInc}/{metaNat s daIncKey} hm={showMarks a.hMarks} dm={showMarks a.dMarks}"

def parseAns (t : String) : Option DAAns :=
  match t.splitOn ":" with
  | ["ok"] => some (.ok none)
  | ["ok", k] => k.toNat?.map fun k => .ok (some k)
  | ["lost"] => some (.lost none)
  | ["lost", k] => k.toNat?.map fun k => .lost (some k)
  | ["notincluded"] => some .notIncluded
  | ["inmempool"] => some .inMempool
  | ["toobig"] => some .tooBig
  | ["error"] => some .error
  | ["canceled"] => some .canceled
  | _ => none

def showAns : DAAns → String
  | .ok none => "ok"
  | .ok (some k) => s!"ok:{k}"
  | .lost none => "lost"
  | .lost (some k) => s!"lost:{k}"
  | .notIncluded => "notincluded"
  | .inMempool => "inmempool"
  | .tooBig => "toobig"
  | .error => "error"
  | .canceled => "canceled"

def showCall (c : SubmitCall) : String :=
  let p := if c.isData then "d" else "h"
  s!"{String.intercalate "+" (c.heights.map fun h => p ++ toString h)}:{showAns c.ans}:{c.daHeight}:{c.accepted}"

def showRhb (ih : Nat) (a : ANode) : String :=
  let l := (List.range' ih (a.daInc + 1 - ih)).map fun k =>
    s!"{k}:{metaNat a.n.store (rhbKey k "h")}:{metaNat a.n.store (rhbKey k "d")}"
  if l.isEmpty then "-" else String.intercalate "," l

/-- the unmodified submission loop of one kind, ticking until nothing of that kind is pending: each tick is one
`headersIter` / `dataIter` on what is left of the scripted answers (one answer per `Submit` call; after the script the DA
double accepts) -/
def realLoop (isData : Bool) : Nat → Nat → ANode → List DAAns → List SW → List SubmitCall → ANode × List SW × List SubmitCall
  | 0, _, a, _, ws, calls => (a, ws, calls)
  | f+1, nf, a, script, ws, calls =>
    let wm := if isData then a.n.dataWm else a.n.hdrWm
    if a.n.store.height - wm = 0 then (a, ws, calls) else
    -- `nf`: the next `nf` watermark writes fail (`fail=` of the op), whichever tick issues them
    let (r, nf') := if isData then dataIterF nf a script else headersIterF nf a script
    realLoop isData f nf' r.1 (script.drop r.2.2.1.length) (ws ++ r.2.1) (calls ++ r.2.2.1)

def doStart (s : St) (disk : Store) (clean : Bool) (first : Bool) : St × String :=
  let a0 : ANode := if first then {} else s.a
  match Submit.restart s.cfg a0 disk clean with
  | none => ({ s with ok := false }, "start err")
  | some a => ({ s with a := a, before := disk, ws := [], ok := true }, "start " ++ showState a)

def step (s : St) (line : String) : St × String :=
  let o := parseOp line
  if o.verb ≠ "reset" && !s.ok then (s, "dead") else
  match o.verb with
  | "reset" =>
    let pa := o.bytes "pa"
    let cfg : Producer.Cfg := { chainId := "vchain", initialHeight := o.nat "ih", genesisTime := o.nat "gt",
                                proposerAddr := pa, key := 1, signerAddr := pa, maxPending := o.nat "maxp" }
    doStart { cfg := cfg, ts := o.nat "gt" } {} false true
  | "produce" =>
    let ts := s.ts + 1000000000
    let before := s.a.n.store
    let (n', ws, out) := Producer.publish s.cfg s.a.n (.batch (o.list "txs") ts []) .ok
    let cls := match out with
      | .refused => "refused"
      | .ok | .noBatch | .seqErr => "nil"
      | _ => "err"
    let a' := { s.a with n := n' }
    ({ s with a := a', ts := ts, before := before, ws := ws }, s!"produced out={cls} {showState a'}")
  | "subh" | "subd" =>
    let toks := if o.str "script" = "" || o.str "script" = "-" then [] else (o.str "script").splitOn "|"
    match toks.mapM parseAns with
    | none => (s, "bad-op")
    | some script =>
      let before := s.a.n.store
      let isD := o.verb = "subd"
      -- `fail=n`: the next n writes of the watermark fail (not combined with `during=`)
      let nf := if o.str "during" = "" then o.nat "fail" else 0
      let ((a2, ws2, calls, out), _) := if isD then dataIterF nf s.a script else headersIterF nf s.a script
      let canceled : Bool := match calls.getLast? with | some c => decide (c.ans = .canceled) | none => false
      let outS := match out with
        | .skipped => "skipped" | .fetchErr => "fetchErr" | .done => "done"
        | .incomplete => if canceled then "done" else "incomplete"
      let cs := if calls.isEmpty then "-" else String.intercalate ";" (calls.map showCall)
      if o.str "during" = "" then
        ({ s with a := a2, before := before, ws := ws2 }, s!"{o.verb} out={outS} calls={cs} {showState a2} w={Drv.Prod.showWs ws2}")
      else
        -- a block is committed while the body runs: at its first signer call (data: once the pending list has been read)
        -- or at its first Submit call; if that point is not reached, right after it
        let txs := (parseHexList (((o.str "during").splitOn ":").getD 1 "-")).getD []
        let ts := s.ts + 1000000000
        let atSubmit := o.str "at" = "submit"
        let fired : Bool :=
          if atSubmit then !calls.isEmpty
          else isD && decide (s.a.n.store.height ≠ s.a.n.dataWm) && decide (s.a.n.dataWm ≤ s.a.n.store.height) &&
               (pendingBlocks s.a.n.store s.a.n.dataWm).isSome
        let cls (out : Producer.Outcome) : String := match out with
          | .refused => "refused"
          | .ok | .noBatch | .seqErr => "nil"
          | _ => "err"
        if fired then
          let p := Producer.publish s.cfg s.a.n (.batch txs ts []) .ok
          let a' := mergeDuring a2 p.1 ws2
          let ws := p.2.1 ++ ws2
          let pt := if atSubmit then "submit" else "sign"
          ({ s with a := a', ts := ts, before := before, ws := ws },
            s!"{o.verb} out={outS} calls={cs} {showState a'} w={Drv.Prod.showWs ws} during={cls p.2.2}@{pt}")
        else
          let p := Producer.publish s.cfg a2.n (.batch txs ts []) .ok
          let a' := { a2 with n := p.1 }
          let ws := ws2 ++ p.2.1
          ({ s with a := a', ts := ts, before := before, ws := ws },
            s!"{o.verb} out={outS} calls={cs} {showState a'} w={Drv.Prod.showWs ws} during={cls p.2.2}@after")
  | "subhreal" | "subdreal" =>
    let toks := if o.str "script" = "" || o.str "script" = "-" then [] else (o.str "script").splitOn "|"
    match toks.mapM parseAns with
    | none => (s, "bad-op")
    | some script =>
      let before := s.a.n.store
      let (a', ws, calls) := realLoop (o.verb = "subdreal") (script.length + 4) (o.nat "fail") s.a script [] []
      let wm := if o.verb = "subdreal" then a'.n.dataWm else a'.n.hdrWm
      let outS := if a'.n.store.height - wm = 0 then "quiescent" else "busy"
      let cs := if calls.isEmpty then "-" else String.intercalate ";" (calls.map showCall)
      ({ s with a := a', before := before, ws := ws }, s!"{o.verb} out={outS} calls={cs} {showState a'} w={Drv.Prod.showWs ws}")
  | "incl" | "inclreal" =>
    let before := s.a.n.store
    let n0 := s.a.finals.length
    let (a', ws) := includerIter s.a
    let fin := (a'.finals.take (a'.finals.length - n0)).reverse
    ({ s with a := a', before := before, ws := ws },
      s!"incl finals={natList fin} {showState a'} w={Drv.Prod.showWs ws} rhb={showRhb (max 1 s.cfg.initialHeight) a'}")
  | "restart" => doStart s s.a.n.store true false
  | "crash" => doStart s (s.before.applyPrefix (o.nat "keep") s.ws) false false
  | _ => (s, "bad-op")

end Drv.Sub
