import Drv.Util
import Model.Queue

/-! Driver for the `queue` stream (C10): the single sequencer's batch queue. -/
namespace Drv.C10
open Queue

inductive Mode | seq | queue
  deriving DecidableEq, Inhabited

structure S where
  mode : Mode := .seq
  cfg : Cfg := {}
  st : St := {}
  deriving Inhabited

def init : S := {}

def showDisk (d : Disk) : String :=
  if d.isEmpty then "disk=-"
  else "disk=" ++ String.intercalate "," (d.map fun e => renderKey e.1 ++ ":" ++ Bytes.toHexTok (valueOf e.2))

def showOut : Out → String
  | .ok => "ok"
  | .skipEmpty => "skip-empty"
  | .errId => "err:id"
  | .errFull => "err:full"
  | .batch b => if b.isEmpty then "empty" else "batch=" ++ hexList b
  | .empty => "empty"
  | .restarted => "ok"
  | .errStore => "err:store"

/-- repeat `next` until nothing (or an error) comes out -/
def drain (cfg : Cfg) (op : Queue.Op) : Nat → St → List Batch → St × List Batch × Out
  | 0, s, acc => (s, acc.reverse, .empty)
  | fuel+1, s, acc =>
    let r := step realKey cfg s op
    match r.2 with
    | .batch b => if b.isEmpty then (r.1, acc.reverse, r.2) else drain cfg op fuel r.1 (b :: acc)
    | o => (r.1, acc.reverse, o)

def maxBound : Nat := 1000000

def doReset (o : Op) : S × String :=
  let mode? : Option Mode := match o.get? "mode" with
    | none => some .seq | some "seq" => some .seq | some "queue" => some .queue | _ => none
  let max? : Option Nat := match o.get? "max" with
    | none => some 0 | some v => (v.toNat?).bind fun n => if n < maxBound && v.all Char.isDigit then some n else none
  let id? : Option Bytes := match o.get? "id" with | none => some [] | some v => Bytes.ofHex v
  match mode?, max?, id? with
  | some m, some n, some i => ({ mode := m, cfg := { id := i, max := n }, st := {} }, "ok")
  | _, _, _ => ({}, "bad-op")

/-- an optional small decimal argument: absent → `some none`, malformed → `none` -/
def optNat? (o : Op) (k : String) : Option (Option Nat) :=
  match o.get? k with
  | none => some none
  | some v => if v.all Char.isDigit then (v.toNat?).bind fun n => if n < maxBound then some (some n) else none else none

/-- the optional `ctx=` argument of a call: absent → `some none`, malformed → `none` -/
def ctx? (o : Op) : Option (Option Ctx) :=
  match o.get? "ctx" with
  | none => some none
  | some "live" => some (some .live)
  | some "cancelled" => some (some .cancelled)
  | some "expired" => some (some .expired)
  | _ => none

def at? (o : Op) : Option Bool :=
  match o.get? "at" with | some "0" => some false | some "1" => some true | _ => none

def run1 (s : S) (op : Queue.Op) (pre : String) : S × String :=
  let r := step realKey s.cfg s.st op
  ({ s with st := r.1 }, pre ++ showOut r.2 ++ " " ++ showDisk r.1.disk)

/-- a crash whose restart comes with a new queue bound: the crash, then (the process being down anyway)
a restart with that bound – `Load` does not depend on the bound, so this is one restart -/
def run1Max (s : S) (op : Queue.Op) (pre : String) (newMax : Option Nat) : S × String :=
  let r := step realKey s.cfg s.st op
  let st := match newMax with
    | none => r.1
    | some n => (step realKey s.cfg r.1 (Queue.Op.restartMax n)).1
  ({ s with st := st }, pre ++ showOut r.2 ++ " " ++ showDisk st.disk)

def step (s : S) (line : String) : S × String :=
  let o := parseOp line
  let bad : S × String := (s, "bad-op")
  let inSeq : Bool := decide (s.mode = .seq)
  match o.verb with
  | "reset" => doReset o
  | "submit" =>
    match inSeq, o.bytes? "id", (o.get? "txs").bind parseHexList, ctx? o with
    | true, some id, some b, some none => run1 s (Queue.Op.submit id b) ""
    | true, some id, some b, some (some c) => run1 s (Queue.Op.submitCtx c id b) ""
    | _, _, _, _ => bad
  | "next" =>
    match inSeq, o.bytes? "id", ctx? o with
    | true, some id, some none => run1 s (Queue.Op.next id) ""
    | true, some id, some (some c) => run1 s (Queue.Op.nextCtx c id) ""
    | _, _, _ => bad
  | "restart" =>
    match optNat? o "max" with
    | some none => run1 s Queue.Op.restart ""
    | some (some n) => run1 s (Queue.Op.restartMax n) ""
    | none => bad
  | "fail" =>
    match optNat? o "put", optNat? o "del" with
    | some p, some d => run1 s (Queue.Op.fail (p.getD 0) (d.getD 0)) ""
    | _, _ => bad
  | "crash-submit" =>
    match inSeq, at? o, o.bytes? "id", (o.get? "txs").bind parseHexList, optNat? o "max" with
    | true, some a, some id, some b, some m => run1Max s (Queue.Op.crashSubmit a id b) "crashed ret=" m
    | _, _, _, _, _ => bad
  | "crash-next" =>
    match inSeq, at? o, o.bytes? "id", optNat? o "max" with
    | true, some a, some id, some m => run1Max s (Queue.Op.crashNext a id) "crashed ret=" m
    | _, _, _, _ => bad
  | "drain" =>
    match inSeq, o.bytes? "id" with
    | true, some id =>
      let r := drain s.cfg (Queue.Op.next id) (s.st.mem.length + 1) s.st []
      ({ s with st := r.1 }, "drained=" ++ (if r.2.1.isEmpty then "-" else String.intercalate ";" (r.2.1.map hexList)) ++
        " last=" ++ showOut r.2.2 ++ " " ++ showDisk r.1.disk)
    | _, _ => bad
  | "add" =>
    match inSeq, (o.get? "txs").bind parseHexList with
    | false, some b => run1 s (Queue.Op.add b) ""
    | _, _ => bad
  | "qnext" => if inSeq then bad else run1 s Queue.Op.qnext ""
  | "load" => if inSeq then bad else run1 s Queue.Op.load ""
  | "qdrain" =>
    if inSeq then bad else
      let r := drain s.cfg Queue.Op.qnext (s.st.mem.length + 1) s.st []
      ({ s with st := r.1 }, "drained=" ++ (if r.2.1.isEmpty then "-" else String.intercalate ";" (r.2.1.map hexList)) ++
        " last=" ++ showOut r.2.2 ++ " " ++ showDisk r.1.disk)
  -- supporting exploration run by the harness only (concurrent history / real badger); self-contained
  | "conc" => (s, "ok")
  | "badger" => (s, "ok")
  | _ => bad

end Drv.C10
