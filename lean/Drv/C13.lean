import Drv.Util
import Model.Shutdown
import Gen.C13

/-! Driver for the C13 stream: one `run` op = one node life (start, scripted span, stop request).  The model's
verdict is `Shutdown.stopsPromptly` on the table of blocking points regenerated from the current source: the stop
request finds every worker at a ctx select, except that a stop that arrives while the start-up delay of
`AggregationLoop` still has more than the 2 s bound to go finds that worker at a `time.Sleep` point IF the table has
one (the current tree has none since /repo 57ac6dd: the verdict is "1"; `Spec.C13.C13_verdicts`), and that a full node
with an aborting execution layer has SyncLoop and DAIncluderLoop at a plain `errCh <-` IF the table has those (none
since /repo 9e73ab9).  A defect that comes back is thus predicted from the regenerated table, not hard-wired. -/
namespace Drv.C13
open Shutdown

def cfg : Cfg :=
  { cap := capOf Gen.C13.capErrCh Gen.C13.capHeaderInCh Gen.C13.capDataInCh, budget := 4 }

def aggProgs : List (List BP) := progsOf Gen.C13.points Gen.C13.aggregatorWorkers
def fullProgs : List (List BP) := progsOf Gen.C13.points Gen.C13.fullWorkers

def boundMs : Nat := 2000

structure Scen where
  agg : Bool
  future : Nat
  bt : Nat
  span : Nat
  prod : Nat
  xexec : Nat
  daf : String := ""
  dabt : Nat := 0
  ttl : Nat := 0
  sf : String := ""   -- store fault: "" | state | put | commit

def parse (o : Op) : Option Scen :=
  let mode := o.str "mode"
  let s : Scen := { agg := mode = "agg", future := o.nat "future", bt := o.nat "bt", span := o.nat "span", prod := o.nat "prod", xexec := o.nat "xexec", daf := o.str "daf", dabt := o.nat "dabt", ttl := o.nat "ttl", sf := o.str "sf" }
  let slow := o.nat "slow"
  if mode ≠ "agg" ∧ mode ≠ "full" then none
  else if (s.daf ≠ "" ∧ s.daf ≠ "reject" ∧ s.daf ≠ "flaky" ∧ s.daf ≠ "error" ∧ s.daf ≠ "canceled" ∧ s.daf ≠ "outage") ∨ s.dabt > 60000 ∨ s.ttl > 1000 ∨ (s.daf ≠ "" ∧ mode ≠ "agg") then none
  else if s.bt < 10 ∨ s.bt > 2000 ∨ s.span < 50 ∨ s.span > 20000 ∨ s.future > 60000 ∨ slow > 5000 then none
  else if mode = "full" ∧ (s.prod < 50 ∨ s.prod > 20000) then none
  else if s.xexec > 2000 ∨ (s.xexec > 0 ∧ mode ≠ "full") then none
  else if o.nat "xagg" > 1500 ∨ (o.nat "xagg" > 0 ∧ mode ≠ "agg") then none
  else if o.nat "maxp" > 100000 ∨ o.nat "outms" > 20000 ∨ (decide (o.nat "outms" > 0) != decide (s.daf = "outage")) then none
  else if (s.sf ≠ "" ∧ s.sf ≠ "state" ∧ s.sf ≠ "put" ∧ s.sf ≠ "commit") ∨ o.nat "sfat" > 20000 ∨ o.nat "sfn" > 100 ∨ (s.sf = "" ∧ (o.nat "sfat" ≠ 0 ∨ o.nat "sfn" ≠ 0)) then none
  else some s

/-- a failed write of the chain state (`store.UpdateState` inside `updateState`, under `lastStateMtx`) takes the worker that
persists the state (AggregationLoop, code 0 / SyncLoop, code 8) down the error path of that critical section: if the
regenerated table says that a lock of that worker is NOT free (its mutex is re-acquired inside one of its own critical
sections, seed C13-H, or a section parks), that is where the stop request finds it - for ever.  On a table whose lock rows
are all free this parks nobody. -/
def parkStore (s : Scen) (progs : List (List BP)) (workers : List Nat) (code : Nat) : List (Nat × BP) :=
  if s.sf = "state" then
    match workers.idxOf? code with
    | some i =>
      match (progs.getD i []).find? (fun p => match p with | .lock _ false => true | _ => false) with
      | some p => [(i, p)]
      | none => []
    | none => []
  else []

/-- where the stop request finds the workers that are not at a ctx select (parking at a point the table does not have
is a no-op in `stopsPromptly`: the worker is then at its ctx select like the others) -/
def parkOf (s : Scen) : List (Nat × BP) :=
  (if s.agg ∧ s.future > 0 ∧ s.future + s.bt > s.span + boundMs then
    match Gen.C13.aggregatorWorkers.idxOf? 0 with
    | some i => [(i, .sleep false)]
    | none => []
  else []) ++
  -- every submission is rejected and the retry back-off (DA block time x mempool TTL) outlasts the stop bound, while the
  -- submission ticker (one DA block time) fires well before the stop request: it finds both submission loops
  -- (codes 2, 3) in their back-off wait, if that is a sleep
  (if s.agg ∧ s.daf = "reject" ∧ (if s.dabt = 0 then s.bt else s.dabt) * 4 < s.span ∧
        (if s.dabt = 0 then s.bt else s.dabt) * (if s.ttl = 0 then 1 else s.ttl) > s.span + boundMs then
    (match Gen.C13.aggregatorWorkers.idxOf? 2 with | some i => [(i, BP.sleep false)] | none => []) ++
    (match Gen.C13.aggregatorWorkers.idxOf? 3 with | some i => [(i, BP.sleep false)] | none => [])
  else [])

/-- full node whose execution layer aborts its calls with the context's error when the node is stopped: both
SyncLoop (code 8) and DAIncluderLoop (code 4) are on their way to a plain `errCh <- err`, if they have one -/
def parkFull (s : Scen) : List (Nat × BP) :=
  if s.xexec > 0 then
    (match Gen.C13.fullWorkers.idxOf? 8 with | some i => [(i, BP.errSend)] | none => []) ++
    (match Gen.C13.fullWorkers.idxOf? 4 with | some i => [(i, BP.errSend)] | none => [])
  else []

/-- "1" prompt; "late" = returns only when the environment lets an unbounded sleep elapse; "hang" = never -/
def verdict (s : Scen) : String :=
  if s.agg then
    if !(stopsPromptly cfg aggProgs (parkStore s aggProgs Gen.C13.aggregatorWorkers 0) []) then "hang"
    else if stopsPromptly cfg aggProgs (parkOf s) [] then "1" else "late"
  else if !(stopsPromptly cfg aggProgs [] []) then "late"
  else if stopsPromptly cfg fullProgs (parkFull s ++ parkStore s fullProgs Gen.C13.fullWorkers 8) [] then "1" else "hang"

def step (st : Unit) (line : String) : Unit × String :=
  let o := parseOp line
  match o.verb with
  | "reset" => (st, "ok")
  | "run" =>
    match parse o with
    | none => (st, "bad-op")
    -- the world invariants re-checked on the stopped stores (chain validity, watermarks, progress, leaks …) are MONITOR-ONLY
    -- observations of the Go side (`c.Report`): the model cannot know the world state, so they are not on the diffed line
    | some s => (st, s!"stopped={verdict s}")
  | _ => (st, "bad-op")

end Drv.C13
