import Drv.Util
import Drv.C12

def main (args : List String) : IO UInt32 := do
  let stdin ← IO.getStdin
  let stdout ← IO.getStdout
  match args with
  | ["C12"] => Drv.loop stdin stdout () Drv.C12.step; return 0
  | _ => IO.eprintln "usage: driver <ID>"; return 2
