import Drv.Util
import Drv.C18

def main : IO UInt32 := do
  Drv.loop (← IO.getStdin) (← IO.getStdout) Drv.C18.init Drv.C18.step
  return 0
