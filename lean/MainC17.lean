import Drv.Util
import Drv.C17

def main : IO UInt32 := do
  Drv.loop (← IO.getStdin) (← IO.getStdout) () Drv.C17.step
  return 0
