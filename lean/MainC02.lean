import Drv.Sync

def main : IO UInt32 := do
  Drv.loop (← IO.getStdin) (← IO.getStdout) ({} : Drv.Syn.St) Drv.Syn.step
  return 0
