import Drv.Util
import Drv.C19

def main : IO UInt32 := do
  Drv.loop (← IO.getStdin) (← IO.getStdout) Drv.C19.init Drv.C19.step
  return 0
