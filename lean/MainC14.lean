import Drv.Util
import Drv.C14

def main : IO UInt32 := do
  Drv.loop (← IO.getStdin) (← IO.getStdout) ({} : Drv.C14.St) Drv.C14.step
  return 0
