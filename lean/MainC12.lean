import Drv.Util
import Drv.C12

def main : IO UInt32 := do
  Drv.loop (← IO.getStdin) (← IO.getStdout) () Drv.C12.step
  return 0
