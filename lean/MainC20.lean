import Drv.Util
import Drv.C20

def main : IO UInt32 := do
  Drv.loop (← IO.getStdin) (← IO.getStdout) (default : Drv.C20.S) Drv.C20.step
  return 0
