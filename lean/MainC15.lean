import Drv.Util
import Drv.C15

def main : IO UInt32 := do
  Drv.loop (← IO.getStdin) (← IO.getStdout) ({} : Drv.C15.D) Drv.C15.step
  return 0
