import Drv.Flow

def main : IO UInt32 := do
  Drv.loop (← IO.getStdin) (← IO.getStdout) ({} : Drv.Flw.St) Drv.Flw.step
  return 0
