import Drv.Producer
import Model.CacheTree

def main : IO UInt32 := do
  Drv.loop (← IO.getStdin) (← IO.getStdout) ({} : Drv.Prod.St) (Drv.Prod.step CacheDir.tree)
  return 0
