import Drv.Util
import Drv.C10

def main : IO UInt32 := do
  Drv.loop (← IO.getStdin) (← IO.getStdout) Drv.C10.init Drv.C10.step
  return 0
