import Drv.Producer

def main : IO UInt32 := do
  Drv.loop (← IO.getStdin) (← IO.getStdout) ({} : Drv.Prod.St) Drv.Prod.step
  return 0
