import Drv.Util
import Drv.C16

def main : IO UInt32 := do
  Drv.loop (← IO.getStdin) (← IO.getStdout) () Drv.C16.step
  return 0
