import Model.Bytes
/-! GENERATED from the /repo working tree by /verif/harness (facts) on every run. Do not edit. -/
namespace Gen.C10
def goldenKey : String := "/batches/59bf3e964c272afd8245fd2a1b9094c8f40a326dbf8c5a7b325efaf485a85280"
def goldenValue : Bytes := ([10, 6, 116, 120, 45, 111, 110, 101, 10, 0, 10, 8, 116, 120, 45, 116, 104, 114, 101, 101] : Bytes)
def goldenHash : Bytes := ([89, 191, 62, 150, 76, 39, 42, 253, 130, 69, 253, 42, 27, 144, 148, 200, 244, 10, 50, 109, 191, 140, 90, 123, 50, 94, 250, 244, 133, 168, 82, 128] : Bytes)
def emptyHash : Bytes := ([227, 176, 196, 66, 152, 252, 28, 20, 154, 251, 244, 200, 153, 111, 185, 36, 39, 174, 65, 228, 100, 155, 147, 76, 164, 149, 153, 27, 120, 82, 184, 85] : Bytes)
def key01 : String := "/batches/19d50b3346fa31fabd157fb3a00641ff76f059b1a45da9d4348372f53d91d473"
def key02 : String := "/batches/09d4b5974a078714b3504959d4c67fe817f089878e2e6e1950b86e65f8494202"
/-- datastore keys of the batches `["ab","c"]` and `["a","bc"]` -/
def keyAbC : String := "/batches/8e502afb4273fb33b57a8c24a5709d6c7030c2c8626f421ddae7b4f93707455f"
def keyABc : String := "/batches/5eee4f0e9c8cfac2efc9945e5e600f0a57d45023af5ddc3c1dc04bfcdf9657fc"
/-- every method of `BatchQueue` in the current source; `true` = pointer receiver, first statement `bq.mu.Lock()`, second `defer bq.mu.Unlock()`, no other use of the mutex, no goroutine / function literal -/
def queueMethods : List (String × Bool) := [("AddBatch", true), ("Load", true), ("Next", true)]
/-- places outside `BatchQueue`'s methods and constructor that select a field of a `BatchQueue` (`x.queue.{queue,mu,db,maxQueueSize}`) -/
def queueFieldEscapes : Nat := 0
/-- the `Sequencer` methods that call the queue: number of call sites `c.queue.M(…)`; `true` = no loop / goroutine / function literal and no assignment to a field of the receiver -/
def sequencerQueueCalls : List (String × Nat × Bool) := [("GetNextBatch", 1, true), ("SubmitBatchTxs", 1, true)]

end Gen.C10
