import Model.Bytes
/-! GENERATED from the /repo working tree by /verif/harness (facts) on every run. Do not edit. -/
namespace Gen.C15
def rootAfterBlock1 : Bytes := ([47, 58, 114, 59, 47, 97, 47, 97, 58, 55, 59, 47, 98, 58, 51, 59, 47, 102, 105, 110, 97, 108, 105, 122, 101, 100, 72, 101, 105, 103, 104, 116, 47, 120, 58, 120, 61, 121, 59] : Bytes)
def genesisRoot : Bytes := ([47, 58, 114, 59, 47, 97, 47, 97, 58, 55, 59, 47, 98, 58, 51, 59, 47, 102, 105, 110, 97, 108, 105, 122, 101, 100, 72, 101, 105, 103, 104, 116, 47, 120, 58, 120, 61, 121, 59] : Bytes)
def gasExecute : Nat := 1024
def gasInit : Nat := 1024
def block2Error : Nat := 3
def rootAfterRejectedBlock2 : Bytes := ([47, 58, 114, 59, 47, 97, 47, 97, 58, 55, 59, 47, 98, 58, 51, 59, 47, 102, 105, 110, 97, 108, 105, 122, 101, 100, 72, 101, 105, 103, 104, 116, 47, 120, 58, 120, 61, 121, 59] : Bytes)
def rootAfterFinal1203 : Bytes := ([47, 58, 114, 59, 47, 97, 47, 97, 58, 55, 59, 47, 98, 58, 51, 59, 47, 102, 105, 110, 97, 108, 105, 122, 101, 100, 72, 101, 105, 103, 104, 116, 47, 120, 58, 120, 61, 121, 59] : Bytes)
def finalizedValue : Bytes := ([49, 50, 48, 51] : Bytes)
def finalZeroRejected : Nat := 1
def genesisRootAgain : Bytes := ([47, 58, 114, 59, 47, 97, 47, 97, 58, 55, 59, 47, 98, 58, 51, 59, 47, 102, 105, 110, 97, 108, 105, 122, 101, 100, 72, 101, 105, 103, 104, 116, 47, 120, 58, 120, 61, 121, 59] : Bytes)
def badTxError1 : Nat := 1
def badTxError2 : Nat := 2
def badTxError3 : Nat := 3
def badTxError4 : Nat := 3
def valueOfAA : Bytes := ([55] : Bytes)
def mempoolCapacity : Nat := 10000

end Gen.C15
