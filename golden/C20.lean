import Model.Bytes
/-! GENERATED from the /repo working tree by /verif/harness (facts) on every run. Do not edit. -/
namespace Gen.C20
def defaultMaxBlobSize : Nat := 1500000
/-- ids released per call by the real sequencer: start=1 drift=2, height 1 = aa01 aa02 aa03, height 2 = bb01, head 50, three calls with limit 5 -/
def w1Ids : List (List Bytes) :=
  [[([1, 0, 0, 0, 0, 0, 0, 0, 1, 0, 0, 0, 0, 0, 0, 0] : Bytes), ([1, 0, 0, 0, 0, 0, 0, 0, 2, 0, 0, 0, 0, 0, 0, 0] : Bytes)],
   [([1, 0, 0, 0, 0, 0, 0, 0, 3, 0, 0, 0, 0, 0, 0, 0] : Bytes), ([2, 0, 0, 0, 0, 0, 0, 0, 1, 0, 0, 0, 0, 0, 0, 0] : Bytes)],
   []]
/-- start=1 drift=1: height 1 = 01 (head 2), one call; then height 2 = 02 appears (head 10), two calls -/
def w2Ids : List (List Bytes) :=
  [[([1, 0, 0, 0, 0, 0, 0, 0, 1, 0, 0, 0, 0, 0, 0, 0] : Bytes)],
   [([2, 0, 0, 0, 0, 0, 0, 0, 1, 0, 0, 0, 0, 0, 0, 0] : Bytes)],
   []]
/-- start=1 drift=1: height 1 = 01, 090909090909 (6 bytes), 03; height 2 = 04; three calls with limit 4 -/
def w3Ids : List (List Bytes) :=
  [[([1, 0, 0, 0, 0, 0, 0, 0, 1, 0, 0, 0, 0, 0, 0, 0] : Bytes)],
   [],
   []]

end Gen.C20
