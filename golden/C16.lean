import Model.Bytes
/-! GENERATED from the /repo working tree by /verif/harness (facts) on every run. Do not edit. -/
namespace Gen.C16
/-- reflect types that matter, id = position -/
def typeNames : List String := ["*errors.errorString", "*fmt.wrapError", "*jsonrpc.ErrClient", "*jsonrpc.JSONRPCError", "*jsonrpc.RPCConnectionError", "error"]
def tyCtxCanceled : Nat := 0
def tyErrClient : Nat := 2
def tyErrorIface : Nat := 5
def tyJSONRPCError : Nat := 3
def tyPlain : Nat := 0
def tyWrapError : Nat := 1
/-- Errors.byType: reflect type id ↦ code -/
def byType : List (Nat × Int) := [(5, 10)]
/-- Errors.byCode: code ↦ (reflect type id, kind: 0 interface, 1 pointer, 2 other) -/
def byCode : List (Int × Nat × Nat) := [(-1111111, 4, 1), (2, 5, 0), (4, 5, 0), (5, 5, 0), (6, 5, 0), (8, 5, 0), (9, 5, 0), (10, 5, 0)]
def sentinelNames : List String := ["ErrBlobNotFound", "ErrBlobSizeOverLimit", "ErrTxTimedOut", "ErrTxAlreadyInMempool", "ErrTxIncorrectAccountSequence", "ErrContextDeadline", "ErrHeightFromFuture", "ErrContextCanceled"]
def sentinelMsgs : List Bytes := [([98, 108, 111, 98, 58, 32, 110, 111, 116, 32, 102, 111, 117, 110, 100] : Bytes),
  ([98, 108, 111, 98, 58, 32, 111, 118, 101, 114, 32, 115, 105, 122, 101, 32, 108, 105, 109, 105, 116] : Bytes),
  ([116, 105, 109, 101, 100, 32, 111, 117, 116, 32, 119, 97, 105, 116, 105, 110, 103, 32, 102, 111, 114, 32, 116, 120, 32, 116, 111, 32, 98, 101, 32, 105, 110, 99, 108, 117, 100, 101, 100, 32, 105, 110, 32, 97, 32, 98, 108, 111, 99, 107] : Bytes),
  ([116, 120, 32, 97, 108, 114, 101, 97, 100, 121, 32, 105, 110, 32, 109, 101, 109, 112, 111, 111, 108] : Bytes),
  ([105, 110, 99, 111, 114, 114, 101, 99, 116, 32, 97, 99, 99, 111, 117, 110, 116, 32, 115, 101, 113, 117, 101, 110, 99, 101] : Bytes),
  ([99, 111, 110, 116, 101, 120, 116, 32, 100, 101, 97, 100, 108, 105, 110, 101] : Bytes),
  ([103, 105, 118, 101, 110, 32, 104, 101, 105, 103, 104, 116, 32, 105, 115, 32, 102, 114, 111, 109, 32, 116, 104, 101, 32, 102, 117, 116, 117, 114, 101] : Bytes),
  ([99, 111, 110, 116, 101, 120, 116, 32, 99, 97, 110, 99, 101, 108, 101, 100] : Bytes)]
def sentinelTypes : List Nat := [0, 0, 0, 0, 0, 0, 0, 0]
/-- status code of types.SubmitWithHelpers when the in-process DA returns the sentinel -/
def sentinelDirectSubmit : List Nat := [7, 5, 3, 4, 8, 6, 7, 7]
/-- error code the real server puts on the wire when the DA behind it returns the sentinel -/
def sentinelWireCode : List Int := [1, 1, 1, 1, 1, 1, 1, 1]
/-- the message on the wire is the sentinel's Error() text -/
def sentinelWireMsgKept : List Bool := [true, true, true, true, true, true, true, true]
def ctxCanceledMsg : Bytes := ([99, 111, 110, 116, 101, 120, 116, 32, 99, 97, 110, 99, 101, 108, 101, 100] : Bytes)
/-- Err* variables of core/da/errors.go that the table above does not list -/
def unknownSentinels : List String := []
def sentinelsInSource : Nat := 8
def statusValues : List Nat := [0, 1, 2, 3, 4, 5, 6, 7, 8, 9, 10]
/-- MaxBlobSize of a client fresh from NewClient -/
def defaultMaxBlobSize : Nat := 1974272
def hookDefaultMaxBlobSize : Nat := 1974272
/-- timeouts (nanoseconds) of the *http.Server inside the server proxy.NewServer returns; 0 = none -/
def serverWriteTimeout : Nat := 0
def serverReadTimeout : Nat := 0
def serverIdleTimeout : Nat := 0
def serverReadHeaderTimeout : Nat := 2000000000
/-- the handler is wrapped by http.TimeoutHandler (would answer 503 for a slow DA call) -/
def serverHandlerIsTimeoutHandler : Bool := false
/-- sizes of the Get calls RetrieveWithHelpers makes for 250 ids -/
def getChunks250 : List Nat := [100, 100, 50]
def retrieve250Blobs : Nat := 250
/-- ResultRetrieve.Message for a GetIDs error with an empty text -/
def getIDsErrPrefix : Bytes := ([102, 97, 105, 108, 101, 100, 32, 116, 111, 32, 103, 101, 116, 32, 73, 68, 115, 58, 32] : Bytes)
/-- ResultRetrieve.Message for a failing first Get of one id, empty error text -/
def getErrPrefix0 : Bytes := ([102, 97, 105, 108, 101, 100, 32, 116, 111, 32, 103, 101, 116, 32, 98, 108, 111, 98, 115, 32, 102, 111, 114, 32, 98, 97, 116, 99, 104, 32, 48, 45, 48, 58, 32] : Bytes)
/-- the same through the proxy (the client wrapper adds its own prefix) -/
def getErrPrefix0Proxied : Bytes := ([102, 97, 105, 108, 101, 100, 32, 116, 111, 32, 103, 101, 116, 32, 98, 108, 111, 98, 115, 32, 102, 111, 114, 32, 98, 97, 116, 99, 104, 32, 48, 45, 48, 58, 32, 102, 97, 105, 108, 101, 100, 32, 116, 111, 32, 103, 101, 116, 32, 98, 108, 111, 98, 115, 58, 32] : Bytes)

end Gen.C16
